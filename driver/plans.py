"""Per-property check plans: which jobs to run in which tier, what coverage is required, what goes in the evidence."""
from core import Job, NCPU

SETUP_MODES = ["dbg", "rel", "off", "nostd", "asan", "miri", "tsan"]

MEM = ("C01",)


def shards(total, n):
    """Split `total` cases into at most n (first, count) ranges."""
    n = max(1, min(n, total))
    per = (total + n - 1) // n
    out = []
    k = 0
    while k < total:
        out.append((k, min(per, total - k)))
        k += per
    return out


def hist_jobs(mode, total, ops, seed, san_props, crash_props, nshards=NCPU, first0=0, extra=(), timeout=900):
    jobs = []
    for (first, cnt) in shards(total, nshards):
        jobs.append(Job(mode, ["hist", "seed=%d" % seed, "first=%d" % (first0 + first), "n=%d" % cnt, "ops=%d" % ops] + list(extra),
                        san_props=san_props, crash_props=crash_props, timeout=timeout))
    return jobs


def miri_hist_jobs(nshards, ops, seed, san_props, tb_every=0, first0=100000, per=1, engine="hist", extra=()):
    jobs = []
    for i in range(nshards):
        tb = tb_every and (i % tb_every == tb_every - 1)
        jobs.append(Job("miri", [engine, "seed=%d" % seed, "first=%d" % (first0 + i * per), "n=%d" % per, "ops=%d" % ops, "light"] + list(extra),
                        san_props=san_props, crash_props=san_props, miri_seed=seed * 4096 + i, tb=bool(tb), timeout=1500))
    return jobs


class Plan:
    level = "exploration"
    assumptions = []
    design_ref = ""

    def jobs(self, tier, seed):
        raise NotImplementedError

    def coverage(self, counts, sets, samples, other, results):
        raise NotImplementedError

    def required(self, counts, sets, other):
        return []


def need(counts, keys, minimum=1):
    return [k for k in keys if counts.get(k, 0) < minimum]


def prefix_sum(counts, prefix):
    return sum(v for k, v in counts.items() if k.startswith(prefix))


def sub(counts, prefix):
    return {k[len(prefix):]: v for k, v in counts.items() if k.startswith(prefix)}


COMMON_ASSUME = [
    "the harness binary is rebuilt from /repo's working tree by cargo (path dependency) before every run",
    "x86-64 Linux, rustc stable for native modes and nightly for Miri/sanitizers; other targets/pointer widths not exercised",
    "the reference model in harness/src is itself correct (it is ~sequential bookkeeping of owner sets and values)",
]

HIST_EDGES = [
    "edge.convert:arc->off", "edge.convert:off->arc", "edge.convert:arc->u1", "edge.convert:arc->u2", "edge.convert:arc->raw",
    "edge.convert:raw->arc", "edge.convert:raw->dyn", "edge.convert:arc->dyn(raw)", "edge.convert:arc->hs", "edge.convert:hs->arc",
    "edge.convert:uniq->arc", "edge.convert:u1->arc(clone_arc+drop)", "edge.convert:u2->arc(clone_arc+drop)",
    "edge.clone:arc.clone", "edge.clone:off.clone", "edge.clone:off.clone_arc", "edge.clone:u1.clone", "edge.clone:u2.clone",
    "edge.clone:arc.borrow_arc.clone_arc", "edge.clone:arc.with_raw_offset_arc.clone", "edge.clone:off.with_arc.clone",
    "edge.clone:raw.from_ptr.clone_arc", "edge.clone:dyn.clone", "edge.clone:hs.clone",
]
HIST_EDGES_FULL = ["edge.convert:arc->dyn(unsize)", "edge.convert:arc->swap", "edge.convert:swap->arc", "edge.clone:swap.load_full"]


class HistPlan(Plan):
    """Shared by the properties decided on the sized-payload history engine."""
    prop = "C01"
    oracle = "live"
    rule = ""
    quick = dict(dbg=1600, rel=800, off=400, nostd=400, asan=320, miri=16, miri_ops=90, ops=220)
    thorough = dict(dbg=120000, rel=60000, off=20000, nostd=20000, asan=16000, miri=192, miri_ops=140, ops=300, memcheck=400)
    san_props = ("C01",)
    crash_props = ("C01",)

    def jobs(self, tier, seed):
        b = self.quick if tier == "quick" else self.thorough
        j = []
        big = tier != "quick"
        for mode in ("dbg", "rel", "off", "nostd"):
            if b.get(mode):
                j += hist_jobs(mode, b[mode], b["ops"], seed, self.san_props, self.crash_props, nshards=NCPU if big else 4,
                               first0={"dbg": 0, "rel": 10 ** 6, "off": 2 * 10 ** 6, "nostd": 3 * 10 ** 6}[mode])
        if b.get("asan"):
            j += hist_jobs("asan", b["asan"], b["ops"], seed, self.san_props, self.crash_props, nshards=NCPU if big else 4,
                           first0=4 * 10 ** 6, extra=["shadow=0"])
        if b.get("memcheck"):
            j += hist_jobs("memcheck", b["memcheck"], 150, seed, self.san_props, self.crash_props, nshards=NCPU, first0=5 * 10 ** 6,
                           extra=["shadow=0"], timeout=3000)
        if b.get("miri"):
            j += miri_hist_jobs(b["miri"], b["miri_ops"], seed, self.san_props, tb_every=4)
        return j

    def required(self, counts, sets, other):
        miss = need(counts, HIST_EDGES + HIST_EDGES_FULL)
        if counts.get("histories", 0) < 10:
            miss.append("histories")
        return miss


class C01(HistPlan):
    prop = "C01"
    assumptions = COMMON_ASSUME + [
        "sequences are sampled (seeded), not enumerated; slice/str payloads are covered by the ctor/shapes engines, thin handles by C10",
        "ASan/memcheck miss intra-object and far out-of-bounds accesses; Miri closes that gap only on its smaller workloads",
    ]

    def coverage(self, counts, sets, samples, other, results):
        return dict(
            evaluations=counts.get("histories", 0),
            operations=counts.get("ops", 0),
            distinct_nontrivial=len(sets.get("nontrivial_sigs", ())),
            distinct_lifecycles=len(sets.get("sigs", ())),
            rule="one evaluation = one seeded random history (create/clone/convert/borrow/drop/unique-ops over 10 handle slots and 10 handle kinds, "
                 "payload shapes T8,T32,T64(over-aligned),TB(owns heap),T1(byte-aligned),Z,Z16(zero-sized with Drop)) checked step by step against the owner-set model, "
                 "the identity registry and the shadow allocator; distinct_nontrivial = distinct per-allocation lifecycle signatures "
                 "(sequence of create/clone/convert/drop events with the handle kinds involved) that involve >=2 handle kinds or a raw-pointer leg",
            samples=samples,
            conversion_edges=sub(counts, "edge."),
            final_release_by_kind=sub(counts, "final_release_by."),
            moved_out_by=sub(counts, "moved_out_by."),
            shapes=sub(counts, "shape."),
            allocator_checked_frees=other.get("checked_frees", 0),
        )


class C04(HistPlan):
    prop = "C04"
    san_props = ()
    crash_props = ()
    quick = dict(dbg=1600, rel=800, nostd=400, miri=8, miri_ops=80, ops=220)
    thorough = dict(dbg=120000, rel=60000, off=20000, nostd=20000, miri=96, miri_ops=140, ops=300)
    assumptions = COMMON_ASSUME + ["count accessors are compared with the model's number of owning handles (raw pointers handed out count as owners)"]

    def coverage(self, counts, sets, samples, other, results):
        return dict(
            evaluations=prefix_sum(counts, "count_obs."),
            histories=counts.get("histories", 0),
            distinct_nontrivial=len(sets.get("ctx_sigs", ())),
            rule="one evaluation = one count observation (an accessor read after a step or inside a borrow callback) compared with the model's owner count; "
                 "distinct_nontrivial = distinct (operation, accessor, multiset of co-owner handle kinds) contexts in which a count >= 2 was checked",
            samples=samples,
            observations_per_accessor=sub(counts, "count_obs."),
        )

    def required(self, counts, sets, other):
        acc = ["Arc::count", "Arc::strong_count", "ArcBorrow::strong_count", "ArcBorrow::with_arc", "ArcUnion::strong_count",
               "ArcUnionBorrow::strong_count", "OffsetArc::strong_count", "OffsetArc::with_arc", "with_raw_offset_arc", "nested-callbacks"]
        return need(counts, ["count_obs." + a for a in acc]) + HistPlan.required(self, counts, sets, other)


UNIQ_APIS = ["get_mut", "get_unique", "is_unique", "try_unique", "try_from", "try_unwrap", "make_mut", "make_unique", "off.make_mut", "unwrap_or_clone"]


class C03seq(HistPlan):
    """Sequential half of C03 (the schedule half is added by the conc engine)."""
    prop = "C03"
    san_props = ()
    crash_props = ()


PLANS = {}
PLANS["C01"] = C01()
PLANS["C04"] = C04()
