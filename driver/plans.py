"""Per-property check plans: which jobs to run in which tier, what coverage is required, what goes in the evidence."""
from core import Job, NCPU

SETUP_MODES = ["dbg", "rel", "off", "nostd", "asan", "miri", "tsan", "tsanrel", "mirirel", "asanrel"]

MEM = ("C01",)


def shards(total, n):
    """Split `total` cases into at most n (first, count) ranges."""
    n = max(1, min(n, total))
    per = (total + n - 1) // n
    out = []
    k = 0
    while k < total:
        out.append((k, min(per, total - k)))
        k += per
    return out


def fill_arg(mode, k, seed):
    """What never-written memory looks like (shadow allocator, native modes): 0xA5 bytes, words of value 1, or zeroes -- rotated over shards and seeds."""
    f = (k + seed) % 3
    return ["fill=%d" % f] if f and mode in ("dbg", "rel", "off", "nostd") else []


def hist_jobs(mode, total, ops, seed, san_props, crash_props, nshards=NCPU, first0=0, extra=(), timeout=900):
    jobs = []
    for k, (first, cnt) in enumerate(shards(total, nshards)):
        jobs.append(Job(mode, ["hist", "seed=%d" % seed, "first=%d" % (first0 + first), "n=%d" % cnt, "ops=%d" % ops] + list(extra) + fill_arg(mode, k, seed),
                        san_props=san_props, crash_props=crash_props, timeout=timeout))
    return jobs


def miri_hist_jobs(nshards, ops, seed, san_props, tb_every=0, first0=100000, per=1, engine="hist", extra=()):
    jobs = []
    for i in range(nshards):
        tb = tb_every and (i % tb_every == tb_every - 1)
        jobs.append(Job("miri", [engine, "seed=%d" % seed, "first=%d" % (first0 + i * per), "n=%d" % per, "ops=%d" % ops, "light"] + list(extra),
                        san_props=san_props, crash_props=san_props, miri_seed=seed * 4096 + i, tb=bool(tb), timeout=1500))
    return jobs


class Plan:
    level = "exploration"
    assumptions = []
    design_ref = ""

    def jobs(self, tier, seed):
        raise NotImplementedError

    def coverage(self, counts, sets, samples, other, results):
        raise NotImplementedError

    def required(self, counts, sets, other):
        return []


def need(counts, keys, minimum=1):
    return [k for k in keys if counts.get(k, 0) < minimum]


def prefix_sum(counts, prefix):
    return sum(v for k, v in counts.items() if k.startswith(prefix))


def sub(counts, prefix):
    return {k[len(prefix):]: v for k, v in counts.items() if k.startswith(prefix)}


COMMON_ASSUME = [
    "the harness binary is rebuilt from /repo's working tree by cargo (path dependency) before every run",
    "x86-64 Linux, rustc stable for native modes and nightly for Miri/sanitizers; other targets/pointer widths not exercised",
    "the reference model in harness/src is itself correct (it is ~sequential bookkeeping of owner sets and values)",
]

HIST_EDGES = [
    "edge.convert:arc->off", "edge.convert:off->arc", "edge.convert:arc->u1", "edge.convert:arc->u2", "edge.convert:arc->raw",
    "edge.convert:raw->arc", "edge.convert:raw->dyn", "edge.convert:arc->dyn(raw)", "edge.convert:arc->hs", "edge.convert:hs->arc",
    "edge.convert:uniq->arc", "edge.convert:u1->arc(clone_arc+drop)", "edge.convert:u2->arc(clone_arc+drop)",
    "edge.clone:arc.clone", "edge.clone:off.clone", "edge.clone:off.clone_arc", "edge.clone:u1.clone", "edge.clone:u2.clone",
    "edge.clone:arc.borrow_arc.clone_arc", "edge.clone:arc.with_raw_offset_arc.clone", "edge.clone:off.with_arc.clone",
    "edge.clone:raw.from_ptr.clone_arc", "edge.clone:dyn.clone", "edge.clone:hs.clone",
]
HIST_EDGES_FULL = ["edge.convert:arc->dyn(unsize)", "edge.convert:arc->swap", "edge.convert:swap->arc", "edge.clone:swap.load_full"]


class HistPlan(Plan):
    """Shared by the properties decided on the sized-payload history engine."""
    prop = "C01"
    oracle = "live"
    rule = ""
    quick = dict(dbg=1600, rel=800, off=400, nostd=400, asan=320, miri=16, miri_ops=90, ops=220)
    thorough = dict(dbg=120000, rel=60000, off=20000, nostd=20000, asan=16000, miri=192, miri_ops=140, ops=300, memcheck=400)
    san_props = ("C01",)
    crash_props = ("C01",)
    with_thin = True

    def jobs(self, tier, seed):
        b = self.quick if tier == "quick" else self.thorough
        j = []
        big = tier != "quick"
        for mode in ("dbg", "rel", "off", "nostd"):
            if b.get(mode):
                j += hist_jobs(mode, b[mode], b["ops"], seed, self.san_props, self.crash_props, nshards=NCPU if big else 4,
                               first0={"dbg": 0, "rel": 10 ** 6, "off": 2 * 10 ** 6, "nostd": 3 * 10 ** 6}[mode])
        if b.get("asan"):
            j += hist_jobs("asan", b["asan"], b["ops"], seed, self.san_props, self.crash_props, nshards=NCPU if big else 4,
                           first0=4 * 10 ** 6, extra=["shadow=0"])
        if b.get("memcheck"):
            j += hist_jobs("memcheck", b["memcheck"], 150, seed, self.san_props, self.crash_props, nshards=NCPU, first0=5 * 10 ** 6,
                           extra=["shadow=0"], timeout=3000)
        if b.get("miri"):
            j += miri_hist_jobs(b["miri"], b["miri_ops"], seed, self.san_props, tb_every=4)
        if self.with_thin:
            j += thin_jobs("dbg", b["dbg"] // 4, b["ops"], seed, self.san_props, self.crash_props, nshards=NCPU if big else 2, first0=7 * 10 ** 6)
            if b.get("asan"):
                j += thin_jobs("asan", b["asan"] // 4, b["ops"], seed, self.san_props, self.crash_props, nshards=NCPU if big else 2, first0=8 * 10 ** 6, extra=["shadow=0"])
            if b.get("miri"):
                j += miri_hist_jobs(max(4, b["miri"] // 4), b["miri_ops"], seed, self.san_props, tb_every=4, engine="thin", first0=9 * 10 ** 6)
            # slice payloads (W3)
            j += thin_jobs("dbg", b["dbg"] // 4, b["ops"], seed, self.san_props, self.crash_props, nshards=NCPU if big else 2, first0=13 * 10 ** 6, engine="slices")
            if b.get("nostd"):
                j += thin_jobs("nostd", b["nostd"] // 4, b["ops"], seed, self.san_props, self.crash_props, nshards=4 if big else 1, first0=14 * 10 ** 6, engine="slices")
            if b.get("asan"):
                j += thin_jobs("asan", b["asan"] // 4, b["ops"], seed, self.san_props, self.crash_props, nshards=NCPU if big else 2, first0=15 * 10 ** 6,
                               extra=["shadow=0"], engine="slices")
            if b.get("miri"):
                j += miri_hist_jobs(max(4, b["miri"] // 4), b["miri_ops"], seed, self.san_props, tb_every=4, engine="slices", first0=16 * 10 ** 6)
        return j

    def required(self, counts, sets, other):
        miss = need(counts, HIST_EDGES + HIST_EDGES_FULL)
        if self.with_thin:
            miss += need(counts, ["thin.edge:thin->fat", "thin.edge:fat->thin", "thin.edge:thin->raw", "thin.edge:raw->thin", "slices.edge:slice->hslice",
                                  "slices.edge:hslice->slice", "slices.edge:raw->slice(from_raw_slice)", "slices.edge:slice->uslice(try_unique)"])
        if counts.get("histories", 0) < 10:
            miss.append("histories")
        return miss


class C01(HistPlan):
    prop = "C01"

    def jobs(self, tier, seed):
        j = HistPlan.jobs(self, tier, seed)
        p = ("C01",)
        # faults whose symptom is a lifetime violation: a destructor that panics at the last release; a lying
        # ExactSizeIterator accepted in release builds (partial destruction, wrong layout at release)
        j += simple_jobs("dbg", ["faults", "seed=%d" % seed, "part=drop"], p)
        j += simple_jobs("rel", ["faults", "seed=%d" % seed, "part=drop"], p)
        j += simple_jobs("rel", ["faults", "seed=%d" % seed, "part=iter"], p)
        j += [Job("asan", ["faults", "seed=%d" % seed, "part=drop", "shadow=0"], san_props=p, crash_props=p)]
        # the same lifetime clause under interleavings: every "one long preemption at a count operation" schedule of small
        # multi-threaded scenarios (identity registry + allocator monitors decide "destroyed exactly once, nothing leaked")
        big = tier != "quick"
        for k, scen in enumerate(("clonedrop", "cow", "unwraprace", "uniqpoll")):
            j += conc_jobs("dbg", scen, 800 if big else 32, seed, p, delay=0, nshards=4 if big else 1, first0=(60 + k) * 10 ** 6, forced=True, timeout=3000)
        return j
    assumptions = COMMON_ASSUME + [
        "sequences are sampled (seeded), not enumerated; slice/str payloads are covered by the ctor/shapes engines, thin handles by C10",
        "ASan/memcheck miss intra-object and far out-of-bounds accesses; Miri closes that gap only on its smaller workloads",
    ]

    def coverage(self, counts, sets, samples, other, results):
        return dict(
            evaluations=counts.get("histories", 0) + counts.get("thin.histories", 0) + counts.get("slices.histories", 0),
            operations=counts.get("ops", 0) + counts.get("thin.ops", 0) + counts.get("slices.ops", 0),
            distinct_nontrivial=len(sets.get("nontrivial_sigs", ())),
            distinct_lifecycles=len(sets.get("sigs", ())),
            rule="one evaluation = one seeded random history (sized world: create/clone/convert/borrow/drop/unique-ops over 10 handle slots and 11 handle kinds; thin world: ThinArc/fat/protected/raw/"
                 "arc-swap/UniqueArc; slice world: Arc<[T]>/HeaderSlice<(),[T]>/raw *const [T]/UniqueArc<[T]>; "
                 "payload shapes T8,T32,T64(over-aligned),TB(owns heap),T1(byte-aligned),Z,Z16(zero-sized with Drop)) checked step by step against the owner-set model, "
                 "the identity registry and the shadow allocator; distinct_nontrivial = distinct per-allocation lifecycle signatures "
                 "(sequence of create/clone/convert/drop events with the handle kinds involved) that involve >=2 handle kinds or a raw-pointer leg",
            samples=samples,
            conversion_edges=sub(counts, "edge."),
            thin_world_edges=sub(counts, "thin.edge:"),
            slice_world_edges=sub(counts, "slices.edge:"),
            final_release_by_kind=sub(counts, "final_release_by."),
            moved_out_by=sub(counts, "moved_out_by."),
            shapes=sub(counts, "shape."),
            allocator_checked_frees=other.get("checked_frees", 0),
        )


class C04(HistPlan):
    prop = "C04"
    san_props = ()
    crash_props = ()
    quick = dict(dbg=1600, rel=800, nostd=400, miri=8, miri_ops=80, ops=220)
    thorough = dict(dbg=120000, rel=60000, off=20000, nostd=20000, miri=96, miri_ops=140, ops=300)
    assumptions = COMMON_ASSUME + ["count accessors are compared with the model's number of owning handles (raw pointers handed out count as owners)"]

    def jobs(self, tier, seed):
        j = HistPlan.jobs(self, tier, seed)
        # the uninitialised-construction conversions (assume_init on sole and shared handles) must not move the count either
        j += simple_jobs("dbg", ["uninit", "seed=%d" % seed, "maxlen=8"], ("C04",))
        j += simple_jobs("rel", ["uninit", "seed=%d" % seed, "maxlen=8"], ("C04",))
        return j

    def coverage(self, counts, sets, samples, other, results):
        return dict(
            evaluations=prefix_sum(counts, "count_obs."),
            histories=counts.get("histories", 0),
            distinct_nontrivial=len(sets.get("ctx_sigs", ())),
            rule="one evaluation = one count observation (an accessor read after a step or inside a borrow callback) compared with the model's owner count; "
                 "distinct_nontrivial = distinct (operation, accessor, multiset of co-owner handle kinds) contexts in which a count >= 2 was checked",
            samples=samples,
            observations_per_accessor=sub(counts, "count_obs."),
        )

    def required(self, counts, sets, other):
        acc = ["Arc::count", "Arc::strong_count", "ArcBorrow::strong_count", "ArcBorrow::with_arc", "ArcUnion::strong_count",
               "ArcUnionBorrow::strong_count", "OffsetArc::strong_count", "OffsetArc::with_arc", "with_raw_offset_arc", "nested-callbacks",
               "inside-eq-cmp-hash-fmt", "inside-with_arc_mut", "ThinArc::strong_count", "ThinArc::with_arc"]
        return need(counts, ["count_obs." + a for a in acc]) + HistPlan.required(self, counts, sets, other)


UNIQ_APIS = ["get_mut", "get_unique", "is_unique", "try_unique", "try_from", "try_unwrap", "make_mut", "make_unique", "off.make_mut", "unwrap_or_clone"]


class C03seq(HistPlan):
    """Sequential half of C03 (the schedule half is added by the conc engine)."""
    prop = "C03"
    san_props = ()
    crash_props = ()



def conc_jobs(mode, scen, total, seed, props, delay=1, nshards=4, first0=0, length=8, timeout=900, forced=False):
    jobs = []
    for (first, cnt) in shards(total, nshards):
        args = ["conc", "scen=%s" % scen, "seed=%d" % seed, "first=%d" % (first0 + first), "n=%d" % cnt, "len=%d" % length, "delay=%d" % delay]
        if forced:
            # every scenario of this job is expanded into a forced-preemption sweep (one long preemption at each count operation)
            args.append("forced=%d" % cnt)
        if mode in ("asan", "tsan", "tsanrel"):
            args.append("shadow=0")
        # every second ThreadSanitizer shard runs the build without debug assertions (see core.MODES)
        m = "tsanrel" if mode == "tsan" and len(jobs) % 2 == 1 else mode
        jobs.append(Job(m, args, san_props=props, crash_props=props, timeout=timeout))
    return jobs


def miri_conc_jobs(scen, nseeds, per, seed, props, tb_every=5, first0=0, length=6, extra_flags=(), forced=False):
    jobs = []
    for i in range(nseeds):
        tb = tb_every and (i % tb_every == tb_every - 1)
        extra = extra_flags[i % len(extra_flags)] if extra_flags else ""
        # every third Miri shard interprets the build without debug assertions
        jobs.append(Job("mirirel" if i % 3 == 2 else "miri", ["conc", "scen=%s" % scen, "seed=%d" % seed, "first=%d" % (first0 + i * per), "n=%d" % per, "len=%d" % length, "delay=1"] + (["forced=%d" % per] if forced else []),
                        san_props=props, crash_props=props, miri_seed=seed * 4096 + i, tb=bool(tb), miri_extra=extra, timeout=1500))
    return jobs


def thin_jobs(mode, total, ops, seed, san_props, crash_props, nshards=4, first0=0, extra=(), timeout=900, engine="thin"):
    jobs = []
    for k, (first, cnt) in enumerate(shards(total, nshards)):
        jobs.append(Job(mode, [engine, "seed=%d" % seed, "first=%d" % (first0 + first), "n=%d" % cnt, "ops=%d" % ops] + list(extra) + fill_arg(mode, k, seed),
                        san_props=san_props, crash_props=crash_props, timeout=timeout))
    return jobs


PREEMPT = ("", "-Zmiri-preemption-rate=0.1", "", "-Zmiri-preemption-rate=0.3", "-Zmiri-preemption-rate=0.03")


def forced_jobs(scen, seed, p, big):
    """Forced-preemption sweeps: natively (count-after-free + count-history + identity monitors), under ASan, TSan and Miri."""
    j = []
    j += conc_jobs("dbg", scen, 4000 if big else 96, seed, p, delay=0, nshards=16 if big else 2, first0=20 * 10 ** 6, forced=True, timeout=3000)
    j += conc_jobs("rel", scen, 4000 if big else 48, seed, p, delay=0, nshards=16 if big else 1, first0=21 * 10 ** 6, forced=True, timeout=3000)
    j += conc_jobs("asan", scen, 1600 if big else 48, seed, p, delay=0, nshards=16 if big else 2, first0=22 * 10 ** 6, forced=True, timeout=3000)
    j += conc_jobs("tsan", scen, 1600 if big else 48, seed, p, delay=0, nshards=16 if big else 2, first0=23 * 10 ** 6, forced=True, timeout=3000)
    j += miri_conc_jobs(scen, 96 if big else 6, 1, seed, p, first0=24 * 10 ** 6, forced=True)
    return j


class C02(Plan):
    assumptions = COMMON_ASSUME + [
        "happens-before is judged by Miri's vector-clock race detector (with weak-memory emulation) and by ThreadSanitizer on x86-64 hardware; "
        "the set of legal load outcomes is sampled by Miri's emulation, not enumerated",
        "the cfg(triomphe_verif) count hook only observes and delays (thread-local log, yield/spin); it adds no synchronisation",
    ]

    def jobs(self, tier, seed):
        p = ("C02",)
        j = []
        if tier == "quick":
            j += conc_jobs("dbg", "clonedrop", 6000, seed, p, delay=1, nshards=3)
            j += conc_jobs("rel", "clonedrop", 6000, seed, p, delay=2, nshards=3, first0=10 ** 6)
            j += conc_jobs("tsan", "clonedrop", 10000, seed, p, delay=1, nshards=3, first0=2 * 10 ** 6)
            j += conc_jobs("tsan", "clonedrop", 10000, seed, p, delay=2, nshards=3, first0=3 * 10 ** 6)
            j += conc_jobs("asan", "clonedrop", 4000, seed, p, delay=2, nshards=2, first0=4 * 10 ** 6)
            j += miri_conc_jobs("clonedrop", 64, 6, seed, p, first0=5 * 10 ** 6, extra_flags=PREEMPT)
            j += forced_jobs("clonedrop", seed, p, big=False)
            for scen in ("cow", "unwraprace"):
                j += conc_jobs("dbg", scen, 48, seed, p, delay=0, nshards=1, first0=30 * 10 ** 6, forced=True)
                j += conc_jobs("asan", scen, 24, seed, p, delay=0, nshards=1, first0=31 * 10 ** 6, forced=True)
                j += miri_conc_jobs(scen, 8, 6, seed, p, first0=32 * 10 ** 6, extra_flags=PREEMPT)
            # payloads without drop glue (plain data, slices, str): plain reads versus the last owner's deallocation
            j += conc_jobs("dbg", "plaindrop", 1400, seed, p, delay=1, nshards=1, first0=40 * 10 ** 6)
            j += conc_jobs("tsan", "plaindrop", 2800, seed, p, delay=1, nshards=2, first0=41 * 10 ** 6)
            j += conc_jobs("asan", "plaindrop", 700, seed, p, delay=2, nshards=1, first0=42 * 10 ** 6)
            j += miri_conc_jobs("plaindrop", 14, 7, seed, p, first0=43 * 10 ** 6, extra_flags=PREEMPT)
        else:
            j += conc_jobs("dbg", "clonedrop", 300000, seed, p, delay=1, nshards=8)
            j += conc_jobs("rel", "clonedrop", 300000, seed, p, delay=2, nshards=8, first0=10 ** 6)
            j += conc_jobs("off", "clonedrop", 100000, seed, p, delay=0, nshards=4, first0=6 * 10 ** 6)
            for d in (0, 1, 2):
                j += conc_jobs("tsan", "clonedrop", 160000, seed, p, delay=d, nshards=8, first0=(2 + d) * 10 ** 6, timeout=3000)
            j += conc_jobs("asan", "clonedrop", 60000, seed, p, delay=2, nshards=8, first0=5 * 10 ** 6, timeout=3000)
            j += miri_conc_jobs("clonedrop", 1024, 6, seed, p, first0=7 * 10 ** 6, extra_flags=PREEMPT)
            j += forced_jobs("clonedrop", seed, p, big=True)
            for scen in ("cow", "unwraprace"):
                j += conc_jobs("dbg", scen, 2000, seed, p, delay=0, nshards=8, first0=30 * 10 ** 6, forced=True, timeout=3000)
                j += conc_jobs("asan", scen, 800, seed, p, delay=0, nshards=8, first0=31 * 10 ** 6, forced=True, timeout=3000)
                j += miri_conc_jobs(scen, 128, 6, seed, p, first0=32 * 10 ** 6, extra_flags=PREEMPT)
            j += conc_jobs("dbg", "plaindrop", 70000, seed, p, delay=1, nshards=4, first0=40 * 10 ** 6)
            j += conc_jobs("rel", "plaindrop", 70000, seed, p, delay=2, nshards=4, first0=44 * 10 ** 6)
            j += conc_jobs("tsan", "plaindrop", 140000, seed, p, delay=1, nshards=8, first0=41 * 10 ** 6, timeout=3000)
            j += conc_jobs("asan", "plaindrop", 28000, seed, p, delay=2, nshards=4, first0=42 * 10 ** 6, timeout=3000)
            j += miri_conc_jobs("plaindrop", 140, 7, seed, p, first0=43 * 10 ** 6, extra_flags=PREEMPT)
        return j

    def coverage(self, counts, sets, samples, other, results):
        return dict(
            evaluations=counts.get("conc.clonedrop", 0),
            distinct_nontrivial=len(sets.get("nontrivial_interleavings", ())),
            distinct_interleavings=len(sets.get("interleavings", ())),
            rule="one evaluation = one multi-threaded execution (2-4 threads, 1-2 common allocations, random clone/convert/read/drop programs over Arc/OffsetArc/ArcUnion/raw/dyn/"
                 "HeaderSlice/arc-swap and ThinArc/fat/protected handles; the spawner lets go before joining) under a race detector or the monitors; an interleaving "
                 "signature is the per-thread sequence of (thread, count operation, value observed) recorded by the count hook; non-trivial = the destroyer differs from "
                 "some thread that read the payload",
            samples=samples,
            destroyer_thread_histogram=sub(counts, "conc.destroyer."),
            forced_preemption_scenarios=counts.get("conc.forced_scenarios", 0),
            forced_preemption_runs=counts.get("conc.forced_runs", 0),
            count_events=counts.get("conc.count_events", 0),
            payload_reads=counts.get("conc.payload_reads", 0),
            no_drop_glue_payload_executions=sub(counts, "conc.plaindrop."),
            miri_seeds=sum(1 for r in results if r.job.mode.startswith("miri")),
            tsan_executions=sum(rec.get("counts", {}).get("conc.clonedrop", 0) for r in results if r.job.mode.startswith("tsan") for rec in r.records if rec.get("t") == "stats"),
            hooked=bool(other.get("hooked")),
        )

    def required(self, counts, sets, other):
        miss = need(counts, ["conc.destroyer.t0", "conc.destroyer.t1", "conc.destroyer.t2", "conc.destroyer.t3", "conc.plaindrop.Arc<str>", "conc.plaindrop.ThinArc<u64,u64>"])
        if not other.get("hooked"):
            miss.append("count hook not active")
        return miss


class HistConc(HistPlan):
    """hist + thin histories, plus schedules of one conc scenario."""
    scen = "uniqpoll"
    with_thin = False
    quick = dict(dbg=1200, rel=600, nostd=300, ops=220, miri=8, miri_ops=90)
    thorough = dict(dbg=120000, rel=60000, off=20000, nostd=20000, ops=300, miri=96, miri_ops=140)
    san_props = ()
    crash_props = ()
    per_cycle = 8  # executions that cover every API variant once

    def jobs(self, tier, seed):
        p = (self.prop,)
        j = HistPlan.jobs(self, tier, seed)
        big = tier != "quick"
        j += thin_jobs("dbg", 40000 if big else 400, 220, seed, (), (), nshards=8 if big else 2)
        if not big:
            j += conc_jobs("dbg", self.scen, 4000, seed, p, delay=1, nshards=2)
            j += conc_jobs("rel", self.scen, 4000, seed, p, delay=2, nshards=2, first0=10 ** 6)
            j += conc_jobs("tsan", self.scen, 20000, seed, p, delay=1, nshards=4, first0=2 * 10 ** 6)
            j += conc_jobs("asan", self.scen, 2000, seed, p, delay=2, nshards=1, first0=3 * 10 ** 6)
            j += miri_conc_jobs(self.scen, 48, self.per_cycle, seed, p, first0=4 * 10 ** 6, extra_flags=PREEMPT)
            j += forced_jobs(self.scen, seed, p, big=False)
        else:
            j += conc_jobs("dbg", self.scen, 200000, seed, p, delay=1, nshards=8)
            j += conc_jobs("rel", self.scen, 200000, seed, p, delay=2, nshards=8, first0=10 ** 6)
            for d in (0, 1, 2):
                j += conc_jobs("tsan", self.scen, 150000, seed, p, delay=d, nshards=8, first0=(2 + d) * 10 ** 6, timeout=3000)
            j += conc_jobs("asan", self.scen, 30000, seed, p, delay=2, nshards=4, first0=5 * 10 ** 6, timeout=3000)
            j += miri_conc_jobs(self.scen, 512, self.per_cycle, seed, p, first0=6 * 10 ** 6, extra_flags=PREEMPT)
            j += forced_jobs(self.scen, seed, p, big=True)
        return j


def uniq_table(counts):
    """api -> {grants, declines, co-owner kinds seen at a decline}"""
    t = {}
    for k, v in counts.items():
        if not k.startswith("uniq."):
            continue
        parts = k[5:].split(".with:")
        head = parts[0]
        if head.endswith(".grant"):
            api, what = head[:-6], "grants"
        elif head.endswith(".decline"):
            api, what = head[:-8], "declines"
        else:
            api, what = head, "calls"
        e = t.setdefault(api, dict(grants=0, declines=0, calls=0, co_owner_kinds=set()))
        e[what] += v
        if len(parts) > 1:
            e["co_owner_kinds"].update(x for x in parts[1].split("+") if x)
    for e in t.values():
        e["co_owner_kinds"] = sorted(e["co_owner_kinds"])
    return t


class C03(HistConc):
    prop = "C03"
    scen = "uniqpoll"
    per_cycle = 8

    def jobs(self, tier, seed):
        p = ("C03",)
        j = HistConc.jobs(self, tier, seed)
        big = tier != "quick"
        # the in-place branch of make_mut/make_unique/OffsetArc::make_mut is a uniqueness grant too
        j += conc_jobs("tsan", "cow", 200000 if big else 10000, seed, p, delay=1, nshards=8 if big else 2, first0=11 * 10 ** 6)
        j += miri_conc_jobs("cow", 512 if big else 24, 6, seed, p, first0=12 * 10 ** 6, extra_flags=PREEMPT)
        j += simple_jobs("dbg", ["faults", "seed=%d" % seed, "part=clone"], p)
        # the deprecated Arc::write / as_mut_slice gate, in debug and in release builds
        j += simple_jobs("dbg", ["uninit", "seed=%d" % seed, "maxlen=8"], p)
        j += simple_jobs("rel", ["uninit", "seed=%d" % seed, "maxlen=8"], p)
        j += uninitpoll_jobs(seed, p, big)
        # uniqueness decisions must look at the whole counter (counts that are 1 modulo 2^32, 2^16, ...)
        j += [Job(m, ["wide", "seed=%d" % seed], san_props=p, crash_props=p, timeout=600) for m in ("dbg", "rel")]
        return j
    assumptions = COMMON_ASSUME + [
        "schedule half: Miri's race detector / ThreadSanitizer decide whether every former sharer's access happens-before the granted write; "
        "legal load outcomes are sampled by Miri's weak-memory emulation, not enumerated",
    ]

    def coverage(self, counts, sets, samples, other, results):
        t = uniq_table(counts)
        cells = set()
        for api, e in t.items():
            for k in e["co_owner_kinds"]:
                cells.add((api, k))
        return dict(
            evaluations=sum(e["grants"] + e["declines"] + e["calls"] for e in t.values()) + prefix_sum(counts, "conc.uniqpoll."),
            distinct_nontrivial=len(cells),
            rule="one evaluation = one call of a uniqueness-gated API in a model-checked history (verdict compared with the model's owner count over all handle kinds) "
                 "or one multi-threaded poll-and-mutate execution; distinct_nontrivial = distinct (API, co-owner handle kind present at a decline) cells observed",
            samples=samples,
            per_api=t,
            schedule_executions=sub(counts, "conc.uniqpoll."),
            forced_preemption_runs=counts.get("conc.forced_runs", 0),
            distinct_interleavings=len(sets.get("interleavings", ())),
            miri_seeds=sum(1 for r in results if r.job.mode.startswith("miri")),
        )

    def required(self, counts, sets, other):
        t = uniq_table(counts)
        miss = []
        for api in UNIQ_APIS:
            e = t.get(api)
            if not e or (e["grants"] == 0 and api not in ()) or (e["declines"] == 0 and api not in ("unwrap_or_clone", "make_mut", "make_unique", "off.make_mut")):
                miss.append("uniq." + api)
        for api in ("get_mut", "is_unique+get_mut", "get_unique", "try_unique", "try_from", "try_unwrap", "thin.with_arc_mut.get_mut", "off.make_mut-when-unique"):
            if counts.get("conc.uniqpoll.%s.granted" % api, 0) == 0:
                miss.append("conc.uniqpoll.%s.granted" % api)
        return miss


class C08(HistConc):
    prop = "C08"
    scen = "cow"
    per_cycle = 6

    def jobs(self, tier, seed):
        j = HistConc.jobs(self, tier, seed)
        p = ("C08",)
        # a panicking Clone inside make_mut / make_unique / OffsetArc::make_mut; payloads without drop glue
        j += simple_jobs("dbg", ["faults", "seed=%d" % seed, "part=clone"], p)
        j += simple_jobs("dbg", ["faults", "seed=%d" % seed, "part=drop"], p)
        return j
    assumptions = COMMON_ASSUME + ["schedule half: race detectors decide whether an in-place write raced a reader; readers also compare every read with their snapshot"]

    def coverage(self, counts, sets, samples, other, results):
        t = {k: v for k, v in uniq_table(counts).items() if k in ("make_mut", "make_unique", "off.make_mut")}
        cells = set()
        for api, e in t.items():
            for k in e["co_owner_kinds"]:
                cells.add((api, k))
        return dict(
            evaluations=sum(e["grants"] + e["declines"] for e in t.values()) + prefix_sum(counts, "conc.cow."),
            distinct_nontrivial=len(cells),
            rule="one evaluation = one make_mut/make_unique/OffsetArc::make_mut call in a model-checked history (allocation identity, clone count, counts and every other "
                 "handle's view compared before/after the write) or one writer-vs-readers execution; distinct_nontrivial = distinct (API, co-owner kind at a copying call) cells; "
                 "'grants' = in-place calls, 'declines' = copying calls",
            samples=samples,
            per_api=t,
            schedule_executions=sub(counts, "conc.cow."),
            forced_preemption_runs=counts.get("conc.forced_runs", 0),
            miri_seeds=sum(1 for r in results if r.job.mode.startswith("miri")),
        )

    def required(self, counts, sets, other):
        miss = []
        for api in ("make_mut", "make_unique", "off.make_mut"):
            for br in ("in-place", "copied"):
                if counts.get("conc.cow.%s.%s" % (api, br), 0) == 0:
                    miss.append("conc.cow.%s.%s" % (api, br))
            if counts.get("uniq.%s.grant" % api, 0) == 0:
                miss.append("uniq.%s.grant" % api)
        return miss


class C09(HistConc):
    prop = "C09"
    scen = "unwraprace"
    per_cycle = 6

    def jobs(self, tier, seed):
        j = HistConc.jobs(self, tier, seed)
        p = ("C09",)
        # a panicking Clone inside unwrap_or_clone; payloads without drop glue (no bit-copy shortcuts)
        j += simple_jobs("dbg", ["faults", "seed=%d" % seed, "part=clone"], p)
        j += simple_jobs("dbg", ["faults", "seed=%d" % seed, "part=drop"], p)
        j += simple_jobs("rel", ["faults", "seed=%d" % seed, "part=drop"], p)
        # sole ownership must be decided on the whole counter (counts that are 1 modulo 2^32, 2^16, ...)
        j += [Job(m, ["wide", "seed=%d" % seed], san_props=p, crash_props=p, timeout=600) for m in ("dbg", "rel")]
        return j
    assumptions = COMMON_ASSUME + ["schedule half: identity registry decides 'handed out at most once / destroyed exactly once'; race detectors decide ordering"]

    def coverage(self, counts, sets, samples, other, results):
        apis = ("try_unwrap", "try_unique", "try_from", "unwrap_or_clone")
        t = {k: v for k, v in uniq_table(counts).items() if k in apis}
        cells = set()
        for api, e in t.items():
            for k in e["co_owner_kinds"]:
                cells.add((api, k))
        return dict(
            evaluations=sum(e["grants"] + e["declines"] for e in t.values()) + counts.get("uniq.into_inner", 0) + prefix_sum(counts, "conc.unwraprace."),
            distinct_nontrivial=len(cells),
            rule="one evaluation = one unwrapping call in a model-checked history (identity of the returned value / handle, clone counter, allocator events) or one execution of "
                 "2-3 threads racing try_unwrap/try_unique/TryFrom/unwrap_or_clone/drop on handles to one value; distinct_nontrivial = distinct (API, co-owner kind at a decline) cells",
            samples=samples,
            per_api=t,
            into_inner_calls=counts.get("uniq.into_inner", 0),
            moved_out=sub(counts, "moved_out_by."),
            race_outcomes=sub(counts, "conc.unwraprace."),
            forced_preemption_runs=counts.get("conc.forced_runs", 0),
            distinct_interleavings=len(sets.get("interleavings", ())),
            miri_seeds=sum(1 for r in results if r.job.mode.startswith("miri")),
        )

    def required(self, counts, sets, other):
        return need(counts, ["conc.unwraprace.receivers=0", "conc.unwraprace.receivers=1", "moved_out_by.try_unwrap", "moved_out_by.into_inner", "moved_out_by.unwrap_or_clone"])


class C10(Plan):
    assumptions = COMMON_ASSUME + ["header/element shapes are the 8 pairs listed in the evidence; lengths 0,1,2,3,4,7,8,17"]

    def jobs(self, tier, seed):
        p = ("C10",)
        if tier == "quick":
            j = thin_jobs("dbg", 1600, 220, seed, p, p, nshards=4)
            j += thin_jobs("rel", 800, 220, seed, p, p, nshards=2, first0=10 ** 6)
            j += thin_jobs("nostd", 400, 220, seed, p, p, nshards=2, first0=2 * 10 ** 6)
            j += thin_jobs("asan", 320, 220, seed, p, p, nshards=4, first0=3 * 10 ** 6, extra=["shadow=0"])
            j += miri_hist_jobs(12, 80, seed, p, tb_every=4, engine="thin")
            # ThinArc constructors fed by lying ExactSizeIterators, in debug and release builds
            j += simple_jobs("dbg", ["faults", "seed=%d" % seed, "part=iter"], p)
            j += simple_jobs("rel", ["faults", "seed=%d" % seed, "part=iter"], p)
            # header x element shape matrix (plain-data elements without drop glue, zero-sized, over-aligned) released through thin handles
            j += shapes_jobs("dbg", "b", seed, p, frac=2, nshards=2)
            j += shapes_jobs("rel", "b", seed, p, frac=4, nshards=1)
        else:
            j = simple_jobs("dbg", ["faults", "seed=%d" % seed, "part=iter", "big"], p)
            j += simple_jobs("rel", ["faults", "seed=%d" % seed, "part=iter", "big"], p)
            j += shapes_jobs("dbg", "b", seed, p, frac=1, nshards=4)
            j += shapes_jobs("rel", "b", seed, p, frac=1, nshards=4)
            j += thin_jobs("dbg", 100000, 300, seed, p, p, nshards=16)
            j += thin_jobs("rel", 60000, 300, seed, p, p, nshards=16, first0=10 ** 6)
            j += thin_jobs("off", 20000, 300, seed, p, p, nshards=8, first0=5 * 10 ** 6)
            j += thin_jobs("nostd", 20000, 300, seed, p, p, nshards=8, first0=2 * 10 ** 6)
            j += thin_jobs("asan", 16000, 300, seed, p, p, nshards=16, first0=3 * 10 ** 6, extra=["shadow=0"])
            j += thin_jobs("memcheck", 320, 150, seed, p, p, nshards=16, first0=4 * 10 ** 6, extra=["shadow=0"], timeout=3000)
            j += miri_hist_jobs(128, 140, seed, p, tb_every=4, engine="thin")
        return j

    def coverage(self, counts, sets, samples, other, results):
        edges = sub(counts, "thin.edge:")
        return dict(
            evaluations=counts.get("thin.histories", 0),
            operations=counts.get("thin.ops", 0),
            distinct_nontrivial=len([k for k, v in counts.items() if v and (k.startswith("thin.edge:") or k.startswith("thin.with_arc_mut") or k.startswith("thin.create:") or k.startswith("thin.final_release_by."))]),
            rule="one evaluation = one seeded history over ThinArc / fat Arc / protected Arc / raw c_void / UniqueArc / arc-swap handles with tracked header and elements; after every "
                 "step every handle's recorded length, slice length, header/element values and addresses are compared with the model and with the fat Arc lent by with_arc; "
                 "distinct_nontrivial = distinct operation kinds exercised (conversion/clone edges, constructors, with_arc_mut callback behaviours, releasing handle kinds)",
            samples=samples,
            edges=edges,
            refused_into_thin=counts.get("thin.bad_into_thin", 0),
            with_arc_mut={k: v for k, v in counts.items() if k.startswith("thin.with_arc_mut")},
            shapes=sub(counts, "thin.shape."),
            allocator_checked_frees=other.get("checked_frees", 0),
        )

    def required(self, counts, sets, other):
        return need(counts, ["thin.bad_into_thin", "thin.with_arc_mut.replace", "thin.with_arc_mut.replace+panic", "thin.with_arc_mut.panic",
                             "thin.edge:thin->fat", "thin.edge:fat->thin", "thin.edge:thin->prot", "thin.edge:prot->thin", "thin.edge:thin->raw", "thin.edge:raw->thin",
                             "thin.create:with_arc_mut-fresh"])



def shapes_jobs(mode, fam, seed, props, frac=1, nshards=4, extra=(), timeout=1200, crash=None):
    jobs = []
    for k in range(nshards):
        args = ["shapes", "fam=%s" % fam, "seed=%d" % seed, "frac=%d" % frac, "shard=%d" % k, "nshards=%d" % nshards] + list(extra)
        if mode in ("asan", "memcheck"):
            args.append("shadow=0")
        args += fill_arg(mode, k, seed)
        if mode == "asan" and k % 2 == 1:
            mode_k = "asanrel"  # AddressSanitizer on a build without debug assertions / overflow checks
        else:
            mode_k = mode
        jobs.append(Job(mode_k, args, san_props=props, crash_props=props if crash is None else crash, timeout=timeout, bin="tvs"))
    return jobs


def miri_shapes_jobs(fam, seed, props, n, frac, extra=()):
    jobs = []
    for k in range(n):
        jobs.append(Job("miri", ["shapes", "fam=%s" % fam, "seed=%d" % seed, "frac=%d" % frac, "shard=%d" % k, "nshards=%d" % n] + list(extra),
                        san_props=props, crash_props=props, miri_seed=seed * 4096 + k, tb=(k % 4 == 3), timeout=2400, bin="tvs"))
    return jobs


class ShapesPlan(Plan):
    prop = "C05"
    fams = "all"
    rule = ""

    def jobs(self, tier, seed):
        p = (self.prop,)
        j = []
        if tier == "quick":
            j += shapes_jobs("dbg", self.fams, seed, p, frac=1, nshards=4)
            j += shapes_jobs("rel", self.fams, seed, p, frac=3, nshards=2)
            j += shapes_jobs("nostd", self.fams, seed, p, frac=3, nshards=2)
            j += shapes_jobs("asan", self.fams, seed, p, frac=4, nshards=4)
            j += miri_shapes_jobs(self.fams, seed, p, 16, 40, extra=["maxlen=9"])
        else:
            for m in ("dbg", "rel", "off", "nostd"):
                j += shapes_jobs(m, self.fams, seed, p, frac=1, nshards=4, extra=["scripts=12"])
            j += shapes_jobs("asan", self.fams, seed, p, frac=1, nshards=8, extra=["scripts=4"])
            j += shapes_jobs("memcheck", self.fams, seed, p, frac=6, nshards=16, timeout=3000)
            j += miri_shapes_jobs(self.fams, seed, p, 96, 6, extra=["maxlen=33"])
        return j

    def coverage(self, counts, sets, samples, other, results):
        full = any(r.job.mode in ("dbg", "rel", "off") and "frac=1" in r.job.args for r in results)
        return dict(
            evaluations=counts.get("shapes.cases", 0),
            distinct_nontrivial=len(sets.get("shape_cases", ())),
            rule=self.rule,
            samples=[x for smp in samples for x in smp.get("trace", [])][:12] or samples,
            exhaustive=bool(full),
            constructors={k: v for k, v in counts.items() if ".ctor:" in k},
            release_paths={k: v for k, v in counts.items() if ".rel:" in k},
            union_cases=counts.get("shapes.union", 0),
            overflow_cases=counts.get("shapes.overflow", 0),
            refused_zero_sized=counts.get("shapes.b.refused-zst", 0) + counts.get("shapes.c.refused-zst", 0),
            allocator_checked_frees=other.get("checked_frees", 0),
        )


class C05(ShapesPlan):
    prop = "C05"
    fams = "all"
    rule = ("declared finite matrix: header shapes {(),u8,[u8;3],u64,(u64,u8),[u8;33],A16,A64,ZA16(0 bytes,align 16)} x element shapes {u8,u16,[u8;3],u64,[u8;9],A16,A32,(),ZD(zero-sized with Drop)} "
            "x lengths {0,1,2,3,7,8,9,31,32,33,255} x 7 header+slice constructors x 8 release paths; Arc<[T]>/str: 11 element shapes x lengths x 7 constructors x 5 release paths; "
            "13 sized shapes x 7 constructors x 12 release paths; 11 overflowing size computations. One evaluation = one (shape, length, constructor, release path) case observed by the shadow "
            "allocator (block size/alignment adequate, payload inside the block and aligned, exactly that block freed with the requested layout, nothing left). "
            "distinct_nontrivial = distinct (shapes, length, constructor, release path) cases executed; the dbg build runs the whole matrix (exhaustive=true), other modes a seeded fraction")
    assumptions = COMMON_ASSUME + ["shapes outside the declared matrix (align > 64, size > 64) are not exercised"]

    def jobs(self, tier, seed):
        p = ("C05",)
        j = ShapesPlan.jobs(self, tier, seed)
        big = tier != "quick"
        # constructors fed by iterators: every size_hint regime / Vec capacity mode, and lying ExactSizeIterators (debug and release):
        # the shadow allocator compares the layout at dealloc with the layout at alloc
        j += simple_jobs("dbg", ["ctor", "seed=%d" % seed] + (["full", "rot=5"] if big else ["rot=2"]), p, nshards=8 if big else 2)
        j += simple_jobs("rel", ["ctor", "seed=%d" % (seed + 1)] + (["full", "rot=5"] if big else ["rot=1"]), p, nshards=8 if big else 2)
        j += simple_jobs("dbg", ["faults", "seed=%d" % seed, "part=iter"] + (["big"] if big else []), p)
        j += simple_jobs("rel", ["faults", "seed=%d" % seed, "part=iter"] + (["big"] if big else []), p)
        # "freed exactly once" also when the destructor that runs at the last release panics
        j += simple_jobs("dbg", ["faults", "seed=%d" % seed, "part=drop"], p)
        j += simple_jobs("rel", ["faults", "seed=%d" % seed, "part=drop"], p)
        return j

    def required(self, counts, sets, other):
        return need(counts, ["shapes.overflow", "shapes.union", "shapes.str", "shapes.cases", "ctor.FromIterator for Arc<[T]>", "faults.lie.runs"])


class C11(ShapesPlan):
    prop = "C11"
    fams = "all"

    def jobs(self, tier, seed):
        j = ShapesPlan.jobs(self, tier, seed)
        big = tier != "quick"
        # the history engines compare every handle's value address / heap_ptr with the allocation's after every step
        j += hist_jobs("dbg", 40000 if big else 400, 220, seed, (), (), nshards=8 if big else 2)
        j += thin_jobs("dbg", 10000 if big else 200, 220, seed, (), (), nshards=4 if big else 1)
        j += thin_jobs("dbg", 10000 if big else 200, 220, seed, (), (), nshards=4 if big else 1, engine="slices")
        # pointer provenance of transient handles (with_raw_offset_arc, borrow_arc, ...) is only visible to the interpreter
        j += miri_hist_jobs(48 if big else 8, 140 if big else 70, seed, ("C11",), tb_every=4, first0=17 * 10 ** 6)
        j += miri_hist_jobs(16 if big else 3, 140 if big else 70, seed, ("C11",), tb_every=4, engine="thin", first0=18 * 10 ** 6)
        return j
    rule = ("same declared matrix as C05; one evaluation = one case in which as_ptr / &*handle / into_raw / OffsetArc and ArcBorrow bit patterns / arc-swap RefCnt pointers are compared with each "
            "other and with the block address recorded by the shadow allocator, from_raw-style round trips (also through a trait-object cast) are checked for same allocation, contents "
            "and count, and size_of of every handle type and its Option is asserted; distinct_nontrivial = distinct (shapes, length, constructor, release/round-trip path) cases")
    assumptions = COMMON_ASSUME + ["for ThinArc, as_ptr/into_raw/ptr/heap_ptr are required to be the block address (that is what from_raw takes), not the Deref address"]


class C12(ShapesPlan):
    prop = "C12"
    fams = "u"
    rule = ("all 13x13 ordered pairs of sized shapes {u8,u16,[u8;3],u64,[u8;9],(u64,u8),[u8;33],A16,A32,A64,(),ZA16,ZD} x both constructors x seeded 6-step scripts of "
            "clone/drop/borrow.clone_arc on the union interleaved with plain-Arc operations on the same allocations; variant accessors, payload address, counts on the right allocation, "
            "right destructor and layout at the last release through the union (shadow allocator), one-word size + niche, different variants never equal; "
            "distinct_nontrivial = distinct (A, B, variant) triples")
    assumptions = COMMON_ASSUME + ["ArcUnion histories with tracked payloads also run in the hist engine (C01/C04 checks)"]

    def jobs(self, tier, seed):
        p = ("C12",)
        j = []
        if tier == "quick":
            j += shapes_jobs("dbg", "u", seed, p, nshards=2, extra=["scripts=4"])
            j += shapes_jobs("rel", "u", seed, p, nshards=2, extra=["scripts=2"])
            j += shapes_jobs("nostd", "u", seed, p, nshards=1, extra=["scripts=2"])
            j += shapes_jobs("asan", "u", seed, p, nshards=2, extra=["scripts=1"])
            j += miri_shapes_jobs("u", seed, p, 16, 4, extra=["scripts=1"])
            j += hist_jobs("dbg", 400, 220, seed, (), (), nshards=2)
        else:
            for m in ("dbg", "rel", "off", "nostd"):
                j += shapes_jobs(m, "u", seed, p, nshards=4, extra=["scripts=64"])
            j += shapes_jobs("asan", "u", seed, p, nshards=8, extra=["scripts=8"])
            j += miri_shapes_jobs("u", seed, p, 96, 1, extra=["scripts=2"])
            j += hist_jobs("dbg", 40000, 300, seed, (), (), nshards=8)
        # a union's ==, != and Debug run user code: a panic in there must leave the counts of both allocations alone
        j += simple_jobs("dbg", ["faults", "seed=%d" % seed, "part=cmp", "only=3"], p)
        j += simple_jobs("rel", ["faults", "seed=%d" % seed, "part=cmp", "only=3"], p)
        return j

    def required(self, counts, sets, other):
        return need(counts, ["shapes.union.first", "shapes.union.second"])



def simple_jobs(mode, args, props, nshards=1, timeout=1200, sharded=True):
    jobs = []
    for k in range(nshards):
        a = list(args)
        if sharded and nshards > 1:
            a += ["shard=%d" % k, "nshards=%d" % nshards]
        if mode in ("asan", "memcheck", "tsan", "tsanrel", "asanrel"):
            a.append("shadow=0")
        sd = next((int(x[5:]) for x in a if x.startswith("seed=")), 0)
        a += fill_arg(mode, k + (1 if mode == "rel" else 0), sd)
        jobs.append(Job("asanrel" if mode == "asan" and k % 2 == 1 else mode, a, san_props=props, crash_props=props, timeout=timeout))
    return jobs


class C06(Plan):
    assumptions = COMMON_ASSUME + ["8 (header, element) shape pairs; lengths 0..70, 255, 256, 1000; 5 size_hint regimes; 4 Vec capacity modes"]

    def jobs(self, tier, seed):
        p = ("C06",)
        j = []
        if tier == "quick":
            j += simple_jobs("dbg", ["ctor", "seed=%d" % seed, "rot=3"], p, nshards=4)
            j += simple_jobs("rel", ["ctor", "seed=%d" % (seed + 1), "rot=2"], p, nshards=2)
            j += simple_jobs("nostd", ["ctor", "seed=%d" % (seed + 2), "rot=1"], p, nshards=2)
            j += simple_jobs("asan", ["ctor", "seed=%d" % (seed + 3), "rot=1", "maxlen=256"], p, nshards=4)
            j += [Job("miri", ["ctor", "seed=%d" % seed, "rot=1", "maxlen=9", "shard=%d" % k, "nshards=160"], san_props=p, crash_props=p,
                      miri_seed=seed * 4096 + k, tb=(k % 4 == 3), timeout=1800) for k in range(12)]
        else:
            j += simple_jobs("dbg", ["ctor", "seed=%d" % seed, "full", "rot=5"], p, nshards=16)
            j += simple_jobs("rel", ["ctor", "seed=%d" % (seed + 1), "full", "rot=5"], p, nshards=16)
            j += simple_jobs("off", ["ctor", "seed=%d" % (seed + 4), "rot=5"], p, nshards=8)
            j += simple_jobs("nostd", ["ctor", "seed=%d" % (seed + 2), "full", "rot=3"], p, nshards=8)
            j += simple_jobs("asan", ["ctor", "seed=%d" % (seed + 3), "full", "rot=3"], p, nshards=16, timeout=3000)
            j += simple_jobs("memcheck", ["ctor", "seed=%d" % (seed + 5), "rot=1", "maxlen=70"], p, nshards=16, timeout=3000)
            j += [Job("miri", ["ctor", "seed=%d" % seed, "rot=2", "maxlen=33", "shard=%d" % k, "nshards=100"], san_props=p, crash_props=p,
                      miri_seed=seed * 4096 + k, tb=(k % 4 == 3), timeout=3000) for k in range(100)]
        return j

    def coverage(self, counts, sets, samples, other, results):
        return dict(
            evaluations=counts.get("ctor.constructions", 0),
            distinct_nontrivial=len(sets.get("ctor_cases", ())),
            rule="one evaluation = one construction from identity-tracked inputs: result contents compared with the input identities in order and number, Clone counter must stay 0, "
                 "tracked-value conservation right after construction, the source Vec/Box/String storage must be released during the call and exactly one new block remain "
                 "(shadow allocator), and after releasing the result every input is destroyed exactly once; zero-sized element types may be refused up front with every input "
                 "still destroyed exactly once. distinct_nontrivial = distinct (constructor, header shape, element shape, length class, size_hint regime, capacity mode) cases",
            samples=samples,
            per_constructor={k[5:]: v for k, v in counts.items() if k.startswith("ctor.") and k != "ctor.constructions"},
            allocator_checked_frees=other.get("checked_frees", 0),
        )

    def required(self, counts, sets, other):
        return need(counts, ["ctor.From<Vec<T>> for Arc<[T]>", "ctor.FromIterator for Arc<[T]>", "ctor.Arc::from_header_and_iter", "ctor.Arc::from_header_and_vec",
                             "ctor.ThinArc::from_header_and_iter", "ctor.From<Box<T>>", "ctor.Default", "ctor.copy/str", "ctor.refused-zst"])


def asan_faults(seed, p, extra):
    """The iterator part leaves the documented half-built block behind: leak detection off there, on elsewhere."""
    j = []
    for part in ("clone", "closure", "cmp", "drop"):
        j.append(Job("asan", ["faults", "seed=%d" % seed, "part=%s" % part, "shadow=0"] + extra, san_props=p, crash_props=p))
    j.append(Job("asanrel", ["faults", "seed=%d" % seed, "part=iter", "shadow=0"] + extra, san_props=p, crash_props=p,
                 env={"ASAN_OPTIONS": "detect_leaks=0:halt_on_error=1:exitcode=98"}))
    j.append(Job("asan", ["faults", "seed=%d" % seed, "part=iter", "shadow=0"] + extra, san_props=p, crash_props=p,
                 env={"ASAN_OPTIONS": "detect_leaks=0:halt_on_error=1:exitcode=98"}))
    return j


class C07(Plan):
    level = "fault_enumeration"
    assumptions = COMMON_ASSUME + [
        "fault points: every k-th invocation of each callback at fixed small sizes; allocation failure is injected by the shadow allocator in child processes (native modes only)",
        "a half-built allocation (and the values already moved into it) left behind by a panicking from_header_and_iter-family constructor is tolerated, as documented",
    ]

    def jobs(self, tier, seed):
        p = ("C07",)
        j = []
        if tier == "quick":
            j += simple_jobs("dbg", ["faults", "seed=%d" % seed], p)
            j += simple_jobs("rel", ["faults", "seed=%d" % seed], p)
            j += simple_jobs("nostd", ["faults", "seed=%d" % seed, "part=iter"], p)
            j += asan_faults(seed, p, [])
            for part, n in (("iter", 5), ("clone", 4), ("closure", 3), ("cmp", 7), ("drop", 5)):
                for only in range(n):
                    j += [Job("miri", ["faults", "seed=%d" % seed, "part=%s" % part, "small", "only=%d" % only], san_props=p, crash_props=p, miri_seed=seed * 4096 + len(j),
                              miri_extra="-Zmiri-ignore-leaks" if part == "iter" else "", tb=(only % 3 == 2), timeout=2400)]
        else:
            for m in ("dbg", "rel", "off", "nostd"):
                j += simple_jobs(m, ["faults", "seed=%d" % seed, "big"], p)
            j += asan_faults(seed, p, ["big"])
            for part in ("clone", "closure", "cmp", "drop"):
                j += simple_jobs("memcheck", ["faults", "seed=%d" % seed, "part=%s" % part], p, timeout=3000)
            j += [Job("memcheck", ["faults", "seed=%d" % seed, "part=iter", "shadow=0"], san_props=p, crash_props=p, timeout=3000,
                      valgrind_args=["--leak-check=no"])]
            for tb in (False, True):
                for part, n in (("iter", 5), ("clone", 4), ("closure", 3), ("cmp", 7), ("drop", 5)):
                    for only in range(n):
                        j += [Job("miri", ["faults", "seed=%d" % seed, "part=%s" % part, "only=%d" % only], san_props=p, crash_props=p, miri_seed=seed * 4096 + len(j),
                                  miri_extra="-Zmiri-ignore-leaks" if part == "iter" else "", tb=tb, timeout=3000)]
        return j

    def coverage(self, counts, sets, samples, other, results):
        return dict(
            evaluations=counts.get("faults.injected_runs", 0),
            distinct_nontrivial=len(sets.get("fault_cases", ())),
            rule="fault enumeration: for each API that runs user code (iterator next in 5 constructors; Clone inside make_mut/make_unique/unwrap_or_clone/OffsetArc::make_mut with 4 co-owner "
                 "kinds; closures of with_arc x3 / with_raw_offset_arc / with_arc_mut in 5 behaviours; eq/ne/partial_cmp/cmp/hash/Debug through 7 handle kinds) a panic is injected at the "
                 "k-th callback for every k until the call completes; lying iterators: all (reported, actual) with actual 0..6 and |diff|<=2 plus answers changing between calls; "
                 "allocation failure at the n-th allocation of 12 constructors in child processes. distinct_nontrivial = distinct (site, size, k) fault cases",
            samples=samples or [dict(note="see per_outcome")],
            per_outcome={k: v for k, v in counts.items() if k.startswith("faults.")},
        )

    def required(self, counts, sets, other):
        return need(counts, ["faults.iter.propagated", "faults.iter.completed", "faults.lie.propagated", "faults.clone.propagated", "faults.closure.runs",
                             "faults.cmp.propagated", "faults.drop.runs", "faults.nodrop.runs", "faults.alloc.aborted-via-alloc-error"])



class C14(Plan):
    assumptions = COMMON_ASSUME + [
        "same-allocation licence honoured: == may be true (and != false) for handles to one allocation even if the value is not equal to itself",
        "for header-slices whose recorded lengths differ while header and slice are equal only the consistency laws are required (no particular direction of the order)",
        "ArcUnion {:?}: weakest reading (a function of variant and value that contains the value's {:?} and no address)",
    ]

    def jobs(self, tier, seed):
        p = ("C14",)
        j = []
        if tier == "quick":
            j += simple_jobs("dbg", ["cmp", "seed=%d" % seed, "extra=80"], p)
            j += simple_jobs("rel", ["cmp", "seed=%d" % (seed + 1), "extra=80"], p)
            j += simple_jobs("nostd", ["cmp", "seed=%d" % (seed + 2), "extra=40"], p)
            j += simple_jobs("asan", ["cmp", "seed=%d" % (seed + 3), "extra=30"], p)
            j += [Job("miri", ["cmp", "seed=%d" % (seed * 100 + k), "limit=5", "extra=3", "class=%s" % c], san_props=p, crash_props=p, miri_seed=seed * 4096 + k,
                      tb=(k % 3 == 2), timeout=1800) for k, c in enumerate(["total", "partial", "eq", "total", "partial", "eq"])]
            j += thin_jobs("dbg", 300, 220, seed, (), (), nshards=2) + hist_jobs("dbg", 300, 220, seed, (), (), nshards=2)
        else:
            for k, m in enumerate(("dbg", "rel", "off", "nostd")):
                j += [Job(m, ["cmp", "seed=%d" % (seed * 1000 + k * 50 + q), "extra=400"], san_props=p, crash_props=p) for q in range(8)]
            j += simple_jobs("asan", ["cmp", "seed=%d" % (seed + 3), "extra=200"], p)
            j += [Job("miri", ["cmp", "seed=%d" % (seed * 100 + k), "limit=8", "extra=4", "class=%s" % ["total", "partial", "eq"][k % 3]], san_props=p, crash_props=p,
                      miri_seed=seed * 4096 + k, tb=(k % 3 == 2), timeout=3000) for k in range(48)]
            j += thin_jobs("dbg", 20000, 300, seed, (), (), nshards=8) + hist_jobs("dbg", 20000, 300, seed, (), (), nshards=8)
        return j

    def coverage(self, counts, sets, samples, other, results):
        return dict(
            evaluations=counts.get("cmp.pairs", 0),
            distinct_nontrivial=len(sets.get("cmp_values", ())),
            rule="one evaluation = one ordered pair of values compared through every applicable handle type (Arc<HeaderSlice<H,[T]>>, the same with a recorded length, ThinArc, protected Arc, "
                 "Arc<[T]>, Arc<T>, OffsetArc, ArcBorrow, ArcUnion, Arc<str>) with == != < <= > >= partial_cmp cmp hash {:?} {} checked against the same operation on the plain values and "
                 "against the consistency laws, operands in distinct allocations and in the same allocation; domain D = headers {a,b,c} x slices over {a,b,c} of length <= 3 x recorded "
                 "length {true,true+1} (240 values, all 57600 ordered pairs) per element class {u8, f64 with NaN/-0.0, equality-only}, plus seeded larger values; HashMap/BTreeMap keyed by "
                 "Arc<T> probed with &T. distinct_nontrivial = distinct (element class, value) operands",
            samples=samples,
            exhaustive=bool(other.get("exhaustive_domain")),
            same_allocation_pairs=counts.get("cmp.pairs.same-allocation", 0),
            hash_checks=counts.get("cmp.hash", 0),
            map_probes=counts.get("cmp.map-probes", 0),
            history_compare_ops={k: v for k, v in counts.items() if k.startswith("op.compare") or k.startswith("thin.compare")},
        )

    def required(self, counts, sets, other):
        return need(counts, ["cmp.pairs", "cmp.hash", "cmp.map-probes", "cmp.pairs.same-allocation"])


def uninitpoll_jobs(seed, p, big):
    """Schedules of the deprecated write / as_mut_slice gate: readers on other threads let go, then the gate grants the write (with and without debug assertions)."""
    j = conc_jobs("dbg", "uninitpoll", 40000 if big else 800, seed, p, delay=1, nshards=4 if big else 1, first0=50 * 10 ** 6)
    j += conc_jobs("rel", "uninitpoll", 40000 if big else 800, seed, p, delay=1, nshards=4 if big else 1, first0=51 * 10 ** 6)
    j += conc_jobs("tsan", "uninitpoll", 80000 if big else 4000, seed, p, delay=1, nshards=8 if big else 2, first0=52 * 10 ** 6, timeout=3000)
    j += miri_conc_jobs("uninitpoll", 96 if big else 12, 4, seed, p, first0=53 * 10 ** 6, extra_flags=PREEMPT)
    return j


class C15(Plan):
    assumptions = COMMON_ASSUME + [
        "elements written into a handle that is dropped before assume_init are, by contract, not destroyed: the check requires them to stay alive",
        "6 (header, element) shape pairs, lengths 0..33, every subset of written slots for lengths <= 4 and seeded subsets above",
    ]

    def jobs(self, tier, seed):
        p = ("C15",)
        j = []
        if tier == "quick":
            j += simple_jobs("dbg", ["uninit", "seed=%d" % seed], p, nshards=2)
            j += simple_jobs("rel", ["uninit", "seed=%d" % (seed + 1)], p)
            j += simple_jobs("nostd", ["uninit", "seed=%d" % (seed + 2)], p)
            j += [Job("asan", ["uninit", "seed=%d" % (seed + 3), "shard=%d" % k, "nshards=2", "shadow=0"], san_props=p, crash_props=p,
                      env={"ASAN_OPTIONS": "detect_leaks=0:halt_on_error=1:exitcode=98"}) for k in range(2)]
            j += [Job("miri", ["uninit", "seed=%d" % seed, "maxlen=5", "shard=%d" % k, "nshards=12"], san_props=p, crash_props=p, miri_seed=seed * 4096 + k,
                      tb=(k % 4 == 3), miri_extra="-Zmiri-ignore-leaks", timeout=1800) for k in range(12)]
        else:
            for k, m in enumerate(("dbg", "rel", "off", "nostd")):
                j += [Job(m, ["uninit", "seed=%d" % (seed * 1000 + k * 50 + q), "maxlen=70"], san_props=p, crash_props=p) for q in range(8)]
            j += [Job("asan", ["uninit", "seed=%d" % (seed + 3), "maxlen=70", "shard=%d" % k, "nshards=8", "shadow=0"], san_props=p, crash_props=p,
                      env={"ASAN_OPTIONS": "detect_leaks=0:halt_on_error=1:exitcode=98"}) for k in range(8)]
            j += [Job("memcheck", ["uninit", "seed=%d" % seed, "shadow=0", "shard=%d" % k, "nshards=16"], san_props=p, crash_props=p, timeout=3000,
                      valgrind_args=["--leak-check=no"]) for k in range(16)]
            j += [Job("miri", ["uninit", "seed=%d" % seed, "maxlen=9", "shard=%d" % k, "nshards=64"], san_props=p, crash_props=p, miri_seed=seed * 4096 + k,
                      tb=(k % 4 == 3), miri_extra="-Zmiri-ignore-leaks", timeout=3000) for k in range(64)]
        j += uninitpoll_jobs(seed, p, tier != "quick")
        return j

    def coverage(self, counts, sets, samples, other, results):
        return dict(
            evaluations=counts.get("uninit.cases", 0),
            distinct_nontrivial=len(sets.get("uninit_cases", ())),
            rule="one evaluation = one uninitialised-construction case: (header shape, element shape, length, set of slots written, path) where the path is drop-before-assume_init via "
                 "Arc::new_uninit_slice / UniqueArc::new_uninit_slice / from_header_and_uninit_slice, write-all + assume_init via each of them, or a deprecated as_mut_slice / Arc::write on a "
                 "shared and on a sole handle (co-owner Arc, OffsetArc or raw pointer); identity registry decides which destructors ran, the shadow allocator decides block release and layout. "
                 "distinct_nontrivial = distinct (shapes, length, none/some/all written, path) cases",
            samples=samples,
            per_path={k: v for k, v in counts.items() if k.startswith("uninit.s")},
            deprecated_gate_schedules=sub(counts, "conc.uninitpoll."),
            allocator_checked_frees=other.get("checked_frees", 0),
        )

    def required(self, counts, sets, other):
        return need(counts, ["uninit.slice.path%d" % k for k in range(7)] + ["uninit.sized.path%d" % k for k in range(10)])


class C16(Plan):
    level = "fault_enumeration"
    assumptions = COMMON_ASSUME + [
        "the counter is preset through its address learned from the cfg(triomphe_verif) hook (hook-less build: block start, validated differentially before use)",
        "at exactly isize::MAX either outcome is accepted (the source documents the limit as soft), but a successful clone must add exactly one",
    ]

    def jobs(self, tier, seed):
        p = ("C16",)
        j = [Job(m, ["overflow", "seed=%d" % seed], san_props=p, crash_props=(), timeout=600) for m in ("dbg", "rel", "nostd", "off")]
        return j

    def coverage(self, counts, sets, samples, other, results):
        return dict(
            evaluations=counts.get("overflow.children", 0),
            distinct_nontrivial=len(sets.get("overflow_cases", ())),
            rule="exhaustive table: 10 starting counts {1,2,2^31,2^32,isize::MAX-1,isize::MAX,isize::MAX+1,isize::MAX+2,usize::MAX-1,usize::MAX} x 14 clone entry points (Arc<T>, Arc<[T]>, "
                 "Arc<dyn>, ThinArc, OffsetArc::clone/clone_arc, ArcBorrow::clone_arc, ArcUnion first/second, clone inside ThinArc/OffsetArc/ArcBorrow::with_arc, with_raw_offset_arc, "
                 "with_arc_mut) x builds {std debug, std release, no_std, hook off}; one evaluation = one child process whose ending (exit 0 with count+1 / death by SIGABRT or SIGILL / "
                 "caught panic) is classified by the parent. Added fault/schedule dimensions: the counts isize::MAX, isize::MAX+1, usize::MAX again with an unwritable stderr (/dev/full, broken pipe); "
                 "and two threads cloning from exactly isize::MAX (Arc, ArcBorrow::clone_arc, ThinArc), free-running and with one thread held by the count hook before / after its first "
                 "count operation until the other has finished: the process must have aborted. distinct_nontrivial = distinct (entry point, starting count, stderr mode) cells and race runs",
            samples=samples,
            exhaustive=True,
            outcomes={k: v for k, v in counts.items() if k.startswith("overflow.")},
            builds=sorted(set(r.job.mode for r in results)),
        )

    def required(self, counts, sets, other):
        return need(counts, ["overflow.aborted", "overflow.cloned", "overflow.race.aborted", "overflow.unwritable-stderr"])


class C17(Plan):
    assumptions = COMMON_ASSUME + ["payload family: integers, floats, strings, tuples, sequences, options, maps, hand-written struct / enum / nested struct using is_human_readable; "
                                   "serde's in-memory value deserializers and scripted seq/map deserializers failing at each access"]

    def jobs(self, tier, seed):
        p = ("C17",)
        j = []
        if tier == "quick":
            j += simple_jobs("dbg", ["serde", "seed=%d" % seed, "n=40"], p)
            j += simple_jobs("rel", ["serde", "seed=%d" % (seed + 1), "n=40"], p)
            j += simple_jobs("asan", ["serde", "seed=%d" % (seed + 2), "n=10"], p)
            j += [Job("miri", ["serde", "seed=%d" % (seed * 10 + k), "n=1", "part=%s" % ("ser", "de")[k % 2]], san_props=p, crash_props=p, miri_seed=seed * 4096 + k,
                      tb=(k >= 2), timeout=1800) for k in range(4)]
        else:
            for k, m in enumerate(("dbg", "rel", "off")):
                j += [Job(m, ["serde", "seed=%d" % (seed * 1000 + k * 50 + q), "n=2000"], san_props=p, crash_props=p) for q in range(8)]
            j += simple_jobs("asan", ["serde", "seed=%d" % (seed + 2), "n=400"], p)
            j += [Job("miri", ["serde", "seed=%d" % (seed * 10 + k), "n=2", "part=%s" % ("ser", "de")[k % 2]], san_props=p, crash_props=p, miri_seed=seed * 4096 + k,
                      tb=(k % 4 >= 2), timeout=3000) for k in range(32)]
        return j

    def coverage(self, counts, sets, samples, other, results):
        return dict(
            evaluations=counts.get("serde.ser_runs", 0) + counts.get("serde.de_runs", 0),
            distinct_nontrivial=len(sets.get("serde_cases", ())),
            rule="one evaluation = one serialisation of (T, Arc<T>, UniqueArc<T>) into a recording serializer with a failure injected at call k (every k, and none), comparing results and "
                 "call traces; or one deserialisation of (T, Arc<T>, UniqueArc<T>) from the same in-memory or scripted deserializer (failing at access k), comparing values/errors, "
                 "sole ownership and allocator balance. distinct_nontrivial = distinct (payload type, trace length) and (deserialiser kind, fault point) cases",
            samples=samples,
            serializer_calls_compared=counts.get("serde.ser_calls_compared", 0),
            deserialisations_ok=counts.get("serde.de_ok", 0),
            deserialisations_err=counts.get("serde.de_err", 0),
        )

    def required(self, counts, sets, other):
        return need(counts, ["serde.ser_runs", "serde.de_ok", "serde.de_err"])


PLANS = {}
PLANS["C01"] = C01()
PLANS["C04"] = C04()
PLANS["C02"] = C02()
PLANS["C03"] = C03()
PLANS["C08"] = C08()
PLANS["C09"] = C09()
PLANS["C10"] = C10()
PLANS["C05"] = C05()
PLANS["C11"] = C11()
PLANS["C12"] = C12()
PLANS["C06"] = C06()
PLANS["C07"] = C07()
PLANS["C14"] = C14()
PLANS["C15"] = C15()
PLANS["C16"] = C16()
PLANS["C17"] = C17()
