"""Build modes, job execution, report classification, verdicts and evidence."""
import concurrent.futures as cf
import hashlib
import json
import os
import re
import shutil
import signal
import subprocess
import sys
import time

VERIF = os.path.dirname(os.path.dirname(os.path.abspath(__file__)))
HARNESS = os.path.join(VERIF, "harness")
BUILD = os.path.join(VERIF, ".build")
EVID = os.path.join(VERIF, "evidence")
REPLAYS = os.path.join(VERIF, "replays")
LOGS = os.path.join(VERIF, ".logs")
KNOWN = os.path.join(VERIF, "known_findings.txt")
TARGET = "x86_64-unknown-linux-gnu"
NCPU = os.cpu_count() or 8
GUARD = "--cfg triomphe_verif"

MODES = {
    # name: (toolchain, profile, rustflags, extra cargo args)
    "dbg": (None, "dev", GUARD, []),
    "rel": (None, "release", GUARD, []),
    "off": (None, "dev", "", []),
    "nostd": (None, "dev", GUARD, ["--no-default-features"]),
    "asan": ("nightly", "dev", GUARD + " -Zsanitizer=address -Cforce-frame-pointers=yes", ["--target", TARGET]),
    "tsan": ("nightly", "dev", GUARD + " -Zsanitizer=thread", ["-Zbuild-std", "--target", TARGET]),
    "miri": ("nightly", "dev", GUARD, []),
    # the race detectors once more with debug assertions compiled out (what a release build of a dependent crate runs):
    # an Acquire load that only a debug_assert! performs must not be what orders anything
    "tsanrel": ("nightly", "dev", GUARD + " -Zsanitizer=thread", ["-Zbuild-std", "--target", TARGET]),
    "mirirel": ("nightly", "dev", GUARD, []),
    "asanrel": ("nightly", "dev", GUARD + " -Zsanitizer=address -Cforce-frame-pointers=yes", ["--target", TARGET]),
}
NODEBUG = ("tsanrel", "mirirel", "asanrel")


def fam(mode):
    """mode family: tsanrel -> tsan, mirirel -> miri"""
    return mode[:-3] if mode in NODEBUG else mode


def mode_env(mode, env):
    if mode in NODEBUG:
        # what a release build of a dependent crate compiles: no debug assertions, wrapping arithmetic
        env["CARGO_PROFILE_DEV_DEBUG_ASSERTIONS"] = "false"
        env["CARGO_PROFILE_DEV_OVERFLOW_CHECKS"] = "false"
    return env

MIRI_BASE = "-Zmiri-permissive-provenance -Zmiri-address-reuse-cross-thread-rate=0 -Zmiri-disable-isolation"


class Inconclusive(Exception):
    pass


def base_env():
    env = dict(os.environ)
    env["CARGO_NET_OFFLINE"] = "true"
    env.pop("RUSTFLAGS", None)
    env.pop("MIRIFLAGS", None)
    env.setdefault("CARGO_TERM_COLOR", "never")
    return env


def bin_path(mode, bin="tv"):
    if mode == "memcheck":
        mode = "rel"
    tc, profile, _, extra = MODES[mode]
    d = "debug" if profile == "dev" else "release"
    if "--target" in extra:
        return os.path.join(BUILD, mode, TARGET, d, bin)
    return os.path.join(BUILD, mode, d, bin)


def build(mode, bins=("tv",)):
    """(Re)build the harness + /repo's current tree in `mode`."""
    if mode == "memcheck":
        return build("rel", bins)
    for b in bins:
        _build(mode, b)


def _build(mode, bin):
    tc, profile, flags, extra = MODES[mode]
    os.makedirs(BUILD, exist_ok=True)
    os.makedirs(LOGS, exist_ok=True)
    env = mode_env(mode, base_env())
    env["RUSTFLAGS"] = flags
    cmd = ["cargo"]
    if tc:
        cmd.append("+" + tc)
    if fam(mode) == "miri":
        # build (and cache) by running a no-op engine once
        cmd += ["miri", "run", "--bin", bin, "--target-dir", os.path.join(BUILD, mode), "--", "noop"]
        env["MIRIFLAGS"] = MIRI_BASE
    else:
        cmd += ["build", "--bin", bin, "--target-dir", os.path.join(BUILD, mode)]
        if profile == "release":
            cmd.append("--release")
        cmd += extra
    t0 = time.time()
    p = subprocess.run(cmd, cwd=HARNESS, env=env, stdout=subprocess.PIPE, stderr=subprocess.STDOUT, text=True)
    log = os.path.join(LOGS, "build-%s-%s.log" % (mode, bin))
    with open(log, "w") as f:
        f.write(p.stdout)
    if p.returncode != 0:
        raise Inconclusive("build of mode %s failed (see %s): %s" % (mode, log, p.stdout[-600:]))
    sys.stderr.write("[build %s/%s %.1fs]\n" % (mode, bin, time.time() - t0))


def build_all(pairs):
    """Build (mode, bin) pairs; different modes in parallel (separate target dirs)."""
    by_mode = {}
    for m, b in pairs:
        m = "rel" if m == "memcheck" else m
        by_mode.setdefault(m, [])
        if b not in by_mode[m]:
            by_mode[m].append(b)
    errs = []

    def one(item):
        m, bins = item
        try:
            build(m, tuple(bins))
        except Inconclusive as e:
            errs.append(str(e))
    with cf.ThreadPoolExecutor(max_workers=4) as ex:
        list(ex.map(one, sorted(by_mode.items())))
    if errs:
        raise Inconclusive("; ".join(errs))


def setup(modes):
    try:
        build_all([(m, b) for m in modes for b in ("tv", "tvs")])
    except Inconclusive as e:
        print("setup: %s" % e)
        return 1
    return 0


# ------------------------------------------------------------------------------------------------
# jobs


class Job:
    def __init__(self, mode, args, label=None, san_props=(), crash_props=(), timeout=900, miri_seed=None, tb=False,
                 miri_extra="", env=None, expect_rc=(0,), valgrind_args=None, bin="tv"):
        self.mode = mode
        self.bin = bin
        self.args = [str(a) for a in args]
        self.label = label or (mode + ":" + " ".join(self.args))
        self.san_props = tuple(san_props)
        self.crash_props = tuple(crash_props)
        self.timeout = timeout
        self.miri_seed = miri_seed
        self.tb = tb
        self.miri_extra = miri_extra
        self.env = env or {}
        self.expect_rc = expect_rc
        self.valgrind_args = valgrind_args or []

    def command(self):
        env = mode_env(self.mode, base_env())
        env.update(self.env)
        if fam(self.mode) == "miri":
            flags = MIRI_BASE
            if self.miri_seed is not None:
                flags += " -Zmiri-seed=%d" % self.miri_seed
            if self.tb:
                flags += " -Zmiri-tree-borrows"
            if self.miri_extra:
                flags += " " + self.miri_extra
            env["MIRIFLAGS"] = flags
            env["RUSTFLAGS"] = MODES[self.mode][2]
            cmd = ["cargo", "+nightly", "miri", "run", "-q", "--bin", self.bin, "--target-dir", os.path.join(BUILD, self.mode), "--"] + self.args
            return cmd, env, HARNESS
        if self.mode == "memcheck":
            leak = ["--leak-check=full", "--errors-for-leak-kinds=definite,indirect"]
            if "--leak-check=no" in self.valgrind_args:
                leak = []
            cmd = ["valgrind", "--error-exitcode=99"] + leak + ["--num-callers=30", "-q"] + self.valgrind_args + [bin_path("rel", self.bin)] + self.args
            return cmd, env, HARNESS
        if fam(self.mode) == "asan":
            env.setdefault("ASAN_OPTIONS", "detect_leaks=1:halt_on_error=1:abort_on_error=0:exitcode=98:detect_stack_use_after_return=0")
            env.setdefault("LSAN_OPTIONS", "exitcode=97")
        if fam(self.mode) == "tsan":
            env.setdefault("TSAN_OPTIONS", "halt_on_error=1:exitcode=66:second_deadlock_stack=1")
        return [bin_path(self.mode, self.bin)] + self.args, env, HARNESS


class Result:
    def __init__(self, job):
        self.job = job
        self.rc = None
        self.out = ""
        self.err = ""
        self.wall = 0.0
        self.timed_out = False
        self.records = []  # parsed @@ lines
        self.viols = []  # dicts: props(list), oracle, msg, source, detail
        self.inconclusive = None


SAN_PATTERNS = [
    # (regex, kind, aliasing_model)
    (re.compile(r"error: Undefined Behavior: Data race detected"), "miri-data-race", False),
    (re.compile(r"error: Undefined Behavior: .*(Stacked Borrows|tag does not exist in the borrow stack|not granting access to tag|Tree Borrows|protected tag|is forbidden|that tag only grants|which is (a |strongly )?protected)"), "miri-aliasing", True),
    (re.compile(r"error: Undefined Behavior: .*(dangling|has been freed|use-after-free|after being freed|dereferenced after)"), "miri-use-after-free", False),
    (re.compile(r"error: Undefined Behavior: .*(uninitialized|uninit)"), "miri-uninit", False),
    (re.compile(r"error: Undefined Behavior: .*incorrect layout on deallocation"), "miri-dealloc-layout", False),
    (re.compile(r"error: Undefined Behavior: .*(out-of-bounds|out of bounds)"), "miri-oob", False),
    (re.compile(r"error: Undefined Behavior"), "miri-ub", False),
    (re.compile(r"error: memory leaked"), "miri-leak", False),
    (re.compile(r"ERROR: AddressSanitizer: (\S+)"), "asan", False),
    (re.compile(r"ERROR: LeakSanitizer"), "lsan-leak", False),
    (re.compile(r"WARNING: ThreadSanitizer: (\S+ ?\S*)"), "tsan", False),
    (re.compile(r"==\d+== (Invalid (read|write|free)|Mismatched free|Conditional jump or move depends on uninitialised|Use of uninitialised|.*definitely lost|.*indirectly lost)"), "memcheck", False),
]


def classify_sanitizer(text):
    """Return list of (kind, aliasing, excerpt)."""
    found = []
    for rx, kind, alias in SAN_PATTERNS:
        m = rx.search(text)
        if m:
            found.append((kind, alias, text[m.start():m.start() + 2200]))
            break
    return found


def first_repo_frame(excerpt):
    m = re.search(r"(/repo/src/[a-z_]+\.rs:\d+)", excerpt)
    return m.group(1) if m else None


def run_job(job):
    r = Result(job)
    cmd, env, cwd = job.command()
    t0 = time.time()
    try:
        p = subprocess.Popen(cmd, cwd=cwd, env=env, stdout=subprocess.PIPE, stderr=subprocess.PIPE, text=True,
                             errors="replace", start_new_session=True)
        try:
            # the watchdog only ever yields "inconclusive"; on a loaded machine it can be stretched (VERIF_TIMEOUT_SCALE=3)
            r.out, r.err = p.communicate(timeout=job.timeout * float(os.environ.get("VERIF_TIMEOUT_SCALE", "1")))
        except subprocess.TimeoutExpired:
            r.timed_out = True
            try:
                os.killpg(p.pid, signal.SIGKILL)
            except Exception:
                pass
            r.out, r.err = p.communicate()
        r.rc = p.returncode
    except Exception as e:  # harness error
        r.inconclusive = "could not run %s: %s" % (cmd[0], e)
        return r
    r.wall = time.time() - t0
    for line in r.out.splitlines():
        if line.startswith("@@"):
            try:
                r.records.append(json.loads(line[2:]))
            except Exception:
                pass
    for rec in r.records:
        if rec.get("t") == "viol":
            r.viols.append(dict(props=[x for x in rec.get("props", "").split(",") if x], oracle=rec.get("oracle"),
                                msg=rec.get("msg"), source="monitor", detail=rec))
    text = r.err + "\n" + r.out
    for kind, alias, excerpt in classify_sanitizer(text):
        r.viols.append(dict(props=list(job.san_props), oracle=kind, msg=(first_repo_frame(excerpt) or "") + " " + excerpt.strip().splitlines()[0][:300]
                            if excerpt.strip() else kind, source="sanitizer", aliasing=alias, detail=dict(excerpt=excerpt[-2500:])))
    if r.timed_out:
        r.inconclusive = "watchdog (%ds) fired for %s" % (job.timeout, job.label)
    elif r.rc is not None and r.rc < 0 and not any(v["source"] == "sanitizer" for v in r.viols):
        # killed by a signal without a sanitizer report
        sig = -r.rc
        crash = next((rec for rec in r.records if rec.get("t") == "crash"), None)
        if crash and "|" in crash.get("op", ""):
            # the harness noted which library operation was in flight
            props, op = crash["op"].split("|", 1)
            r.viols.append(dict(props=[x for x in props.split(",") if x], oracle="crash", msg="the process died with signal %d inside: %s" % (sig, op),
                                source="crash", detail=dict(stderr=r.err[-1500:])))
        elif job.crash_props:
            r.viols.append(dict(props=list(job.crash_props), oracle="crash", msg="workload died with signal %d" % sig,
                                source="crash", detail=dict(stderr=r.err[-1500:])))
        else:
            r.inconclusive = "workload died with signal %d in %s" % (sig, job.label)
    elif r.rc not in job.expect_rc and not r.viols:
        # rc 1 is used by engines to say "violations emitted"; anything else without a violation record is a harness
        # problem -- unless the harness reported an unprovoked panic raised inside the library itself
        pan = next((rec for rec in r.records if rec.get("t") == "panic" and "/repo/src/" in rec.get("loc", "")), None)
        if pan and ("|" in pan.get("op", "") or job.crash_props):
            props = pan["op"].split("|", 1)[0].split(",") if "|" in pan.get("op", "") else list(job.crash_props)
            r.viols.append(dict(props=[x for x in props if x], oracle="panic", source="crash", detail=dict(record=pan),
                                msg="the library panicked at %s outside every provoked-fault scope (%s): %s" % (
                                    pan.get("loc"), pan.get("op", "").split("|", 1)[-1], pan.get("msg", "")[:200])))
        else:
            r.inconclusive = "unexpected exit status %s from %s: %s" % (r.rc, job.label, (r.err or r.out)[-400:])
    return r


def run_jobs(jobs, parallel=None):
    parallel = parallel or NCPU
    results = []
    with cf.ThreadPoolExecutor(max_workers=parallel) as ex:
        for r in ex.map(run_job, jobs):
            results.append(r)
    return results


# ------------------------------------------------------------------------------------------------
# known findings


def load_known():
    known = []
    if os.path.exists(KNOWN):
        for line in open(KNOWN):
            line = line.strip()
            if line.startswith("known:"):
                m = re.match(r"known:\s+property=(\S+)\s+match=(.*?)\s+--\s+(.*)$", line)
                if m:
                    known.append(dict(prop=m.group(1), match=m.group(2), what=m.group(3)))
    return known


# ------------------------------------------------------------------------------------------------
# the check


def merge_stats(results):
    """Sum 'counts', union 'sets', collect samples from all stats records."""
    counts = {}
    sets = {}
    samples = []
    other = {}
    for r in results:
        for rec in r.records:
            if rec.get("t") != "stats":
                continue
            for k, v in rec.get("counts", {}).items():
                counts[k] = counts.get(k, 0) + v
            for k, v in rec.get("sets", {}).items():
                sets.setdefault(k, set()).update(v)
            s = rec.get("sample")
            if s and len(samples) < 3:
                samples.append(dict(job=r.job.label, trace=s))
            for k, v in rec.items():
                if k in ("t", "counts", "sets", "sample"):
                    continue
                if isinstance(v, bool):
                    other[k] = other.get(k, False) or v
                elif isinstance(v, (int, float)):
                    other[k] = other.get(k, 0) + v
    return counts, sets, samples, other


def run_check(prop, tier, seed, plan):
    t0 = time.time()
    os.makedirs(EVID, exist_ok=True)
    os.makedirs(REPLAYS, exist_ok=True)
    evid_path = os.path.join(EVID, prop + ".json")
    level = plan.level
    try:
        jobs = plan.jobs(tier, seed)
        build_all(sorted(set((j.mode, j.bin) for j in jobs)))
    except Inconclusive as e:
        print("INCONCLUSIVE property=%s %s" % (prop, e))
        return 2
    results = run_jobs(jobs)

    # aliasing-model reports count only if both models reject the same workload
    extra = []
    advisory = []
    for r in results:
        for v in list(r.viols):
            if v.get("aliasing") and fam(r.job.mode) == "miri":
                other = Job(r.job.mode, r.job.args, label=r.job.label + " [other aliasing model]", san_props=r.job.san_props,
                            timeout=r.job.timeout, miri_seed=r.job.miri_seed, tb=not r.job.tb, miri_extra=r.job.miri_extra, bin=r.job.bin)
                r2 = run_job(other)
                if any(x.get("source") == "sanitizer" for x in r2.viols):
                    v["msg"] += " (rejected under both Stacked Borrows and Tree Borrows)"
                else:
                    r.viols.remove(v)
                    advisory.append("%s: %s (one aliasing model only)" % (r.job.label, v["msg"][:200]))
    results += extra

    known = load_known()
    mine, foreign, known_hits, inconc = [], [], [], []
    for r in results:
        if r.inconclusive:
            inconc.append(r.inconclusive)
        for v in r.viols:
            v["job"] = r.job.label
            cmd, env, cwd = r.job.command()
            v["cmd"] = " ".join(cmd)
            v["cwd"] = cwd
            v["env"] = {k: env[k] for k in ("RUSTFLAGS", "MIRIFLAGS", "ASAN_OPTIONS", "LSAN_OPTIONS", "TSAN_OPTIONS") if k in env}
            if prop in v["props"]:
                k = next((k for k in known if k["prop"] == prop and k["match"] in (v["msg"] or "")), None)
                if k:
                    known_hits.append(k)
                else:
                    mine.append(v)
            else:
                foreign.append(v)

    counts, sets, samples, other = merge_stats(results)
    try:
        cov = plan.coverage(counts, sets, samples, other, results)
    except Exception as e:  # malformed stats: the run did not tell us what it covered
        cov = None
        inconc.append("coverage could not be computed: %r" % (e,))
    missing = plan.required(counts, sets, other) if cov is not None else []
    wall = time.time() - t0

    seen = set()
    for k in known_hits:
        if k["what"] not in seen:
            seen.add(k["what"])
            print("KNOWN-FINDING: property=%s %s" % (prop, k["what"]))

    replay_path = None
    if mine:
        v = mine[0]
        h = hashlib.sha1((v["job"] + (v["msg"] or "")).encode()).hexdigest()[:8]
        replay_path = os.path.join(REPLAYS, "%s-%d-%s.json" % (prop, seed, h))
        with open(replay_path, "w") as f:
            json.dump(dict(property=prop, tier=tier, seed=seed, violations=mine[:5]), f, indent=1)

    if cov is not None and not (missing and not mine):
        cov.setdefault("jobs", len(jobs))
        cov.setdefault("slowest_jobs", ["%.0fs %s" % (r.wall, r.job.label[:90]) for r in sorted(results, key=lambda r: -r.wall)[:3]])
        cov.setdefault("job_modes", sorted(set(j.mode for j in jobs)))
        fills = sorted(set(a for j in jobs for a in j.args if a.startswith("fill=")))
        if fills:
            cov.setdefault("fresh_memory_fill_modes", ["fill=0 (0xA5 bytes)"] + [f + (" (words of value 1)" if f == "fill=1" else " (zeroes)") for f in fills])
        if advisory:
            cov["advisory"] = advisory[:10]
        if foreign:
            cov["foreign_oracle_reports"] = ["%s: [%s] %s" % (",".join(v["props"]), v["oracle"], (v["msg"] or "")[:160]) for v in foreign[:5]]
        if inconc:
            cov["inconclusive_jobs"] = inconc[:10]
        ev = dict(property_id=prop, tier=tier, seed=seed, level=level, coverage=cov, assumptions=plan.assumptions,
                  wall_s=round(wall, 2), violations=len(mine))
        with open(evid_path, "w") as f:
            json.dump(ev, f, indent=1)

    for v in foreign[:5]:
        print("NOTE other-property oracle fired (%s) [%s] %s" % (",".join(v["props"]), v["oracle"], (v["msg"] or "")[:200]))
    for a in advisory[:5]:
        print("ADVISORY " + a)
    if mine:
        for v in mine[:5]:
            print("  [%s/%s] %s :: %s" % (v["source"], v["oracle"], v["job"], (v["msg"] or "")[:400]))
        print("VIOLATION property=%s replay=%s" % (prop, replay_path))
        return 1
    if inconc and (len(inconc) * 4 > len(jobs) or missing):
        for m in inconc[:5]:
            print("  inconclusive: " + m[:300])
        print("INCONCLUSIVE property=%s %d of %d jobs inconclusive; missing coverage: %s" % (prop, len(inconc), len(jobs), missing[:8]))
        return 2
    if missing:
        print("INCONCLUSIVE property=%s required coverage not reached: %s" % (prop, missing[:12]))
        return 2
    for m in inconc[:5]:
        print("  note: inconclusive job ignored: " + m[:300])
    print("OK property=%s tier=%s seed=%d jobs=%d evaluations=%s distinct_nontrivial=%s wall=%.1fs" % (
        prop, tier, seed, len(jobs), cov.get("evaluations"), cov.get("distinct_nontrivial"), wall))
    return 0


def replay(prop, path):
    """Re-run the job(s) recorded in a replay file (after rebuilding from /repo's current tree)."""
    d = json.load(open(path))
    rc = 0
    seen = set()
    for v in d.get("violations", []):
        if v.get("cmd") in seen:
            continue
        seen.add(v.get("cmd"))
        mode = (v.get("job") or "").split(":")[0]
        binname = "tvs" if "/tvs " in (v.get("cmd") or "") + " " or "--bin tvs" in (v.get("cmd") or "") else "tv"
        if mode in MODES or mode == "memcheck":
            try:
                build(mode, (binname,))
            except Inconclusive as e:
                print("INCONCLUSIVE property=%s %s" % (prop, e))
                return 2
        print("replaying:", v.get("cmd"))
        env = base_env()
        env.update(v.get("env", {}))
        p = subprocess.run(v["cmd"].split(), cwd=v.get("cwd", HARNESS), env=env)
        rc = rc or p.returncode
    if rc:
        print("VIOLATION property=%s replay=%s" % (prop, path))
    return 1 if rc else 0
