#!/usr/bin/env python3
"""Regenerate MANIFEST.json from the plan table (driver/plans.py) and the texts below."""
import json, os, sys
ROOT = os.path.dirname(os.path.dirname(os.path.abspath(__file__)))
sys.path.insert(0, os.path.join(ROOT, "driver"))
import plans

HOOK_COMMITS = ["1672fe3"]
TEXT = json.load(open(os.path.join(ROOT, "tools", "manifest_texts.json")))

checks = []
for pid in sorted(plans.PLANS):
    t = TEXT[pid]
    checks.append(dict(
        property_id=pid,
        quick_cmd="./check %s --tier quick" % pid,
        thorough_cmd="./check %s --tier thorough" % pid,
        evidence_file="/verif/evidence/%s.json" % pid,
        replay_cmd_template="./check %s --replay {path}" % pid,
        engine=t["engine"],
        level_claimed=dict(category=plans.PLANS[pid].level, text=t["level_text"], design_ref=t["design_ref"]),
        level_note=t["level_note"],
        technique=t["technique"],
    ))
na = [dict(property_id=p, reason=r) for p, r in sorted(TEXT["not_applicable"].items()) if p not in plans.PLANS]
m = dict(
    version=1,
    setup_cmd="./check --setup",
    hooks=dict(
        guard="--cfg triomphe_verif",
        enable="RUSTFLAGS='--cfg triomphe_verif' (set by ./check for every build mode except 'off'); harness crate /verif/harness depends on /repo by path",
        baseline_off_cmd="cd /repo && cargo test --workspace --no-fail-fast --offline",
        source_commits=HOOK_COMMITS,
        add_only=True,
    ),
    engines=TEXT["engines"],
    checks=checks,
    notes=TEXT["notes"],
    not_applicable=na,
)
json.dump(m, open(os.path.join(ROOT, "MANIFEST.json"), "w"), indent=1)
print("wrote MANIFEST.json with", len(checks), "checks,", len(na), "not applicable")
