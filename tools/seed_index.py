#!/usr/bin/env python3
"""Writes seeded/<name>/meta.json from the table below + confirm.txt + the recorded detection (seeded/detect.json)."""
import json, os, re
ROOT = os.path.dirname(os.path.dirname(os.path.abspath(__file__)))
S = {
 "C01-1": ("C01", "ThinArc::with_arc_mut: the DropGuard that writes the (possibly replaced) pointer back is replaced by a plain assignment after the callback", "a with_arc_mut callback that replaces the Arc and then panics"),
 "C01-2": ("C01", "OffsetArc::make_mut overwrites self with ptr::write on the shared path without releasing the old reference (leak)", "OffsetArc::make_mut while shared, then all other owners released"),
 "C01-3": ("C01", "UniqueArc's unsize CoerciblePtr::replace_ptr loses its ManuallyDrop: the value is destroyed by the conversion", "feature unsize, UniqueArc<T> -> UniqueArc<dyn Trait>"),
 "C02-1": ("C02", "drop_inner gains a Relaxed 'sole owner' fast path (strong_count()==1 => destroy without the Acquire)", "destroyer's relaxed load observes another thread's decrement; only a happens-before checker sees it"),
 "C02-2": ("C02", "ArcBorrow::clone_arc increments with load+store instead of fetch_add (lost update)", "another thread's count update lands between the load and the store; ArcBorrow::clone_arc / ArcUnion::clone only"),
 "C02-3": ("C02", "drop_inner decrements, then decides from a re-read of the count instead of the RMW's result", "two threads' decrements land before either re-read (double destroy) or a late re-read touches freed memory"),
 "C03-1": ("C03", "Arc::make_mut tests uniqueness with the Relaxed strong_count instead of the Acquire is_unique", "in-place branch after a former sharer on another thread dropped its handle; ordering only"),
 "C03-2": ("C03", "Arc::try_unique decides with fetch_sub and re-increments when it declines (count transiently one too low)", "exactly two owners; the other owner polls a uniqueness API inside the fetch_sub/fetch_add window"),
 "C03-3": ("C03", "OffsetArc::make_mut drops its temporary Arc when Clone panics (no ManuallyDrop): live OffsetArc not covered by the count", "shared OffsetArc::make_mut + panicking Clone caught, then a uniqueness gate on the co-owner"),
 "C04-1": ("C04", "Arc::with_raw_offset_arc lends a counted clone instead of a ManuallyDrop transient", "count read inside that callback only"),
 "C04-2": ("C04", "OffsetArc::make_mut on the shared path never releases the old reference", "count read through another handle to the old value after OffsetArc::make_mut"),
 "C04-3": ("C04", "Hash for ThinArc clones into a ManuallyDrop fat Arc: every hash call bumps the count permanently", "hashing a ThinArc (directly or as a map key)"),
 "C05-1": ("C05", "UniqueArc::new_uninit requests its block with a hard-coded align_of::<AtomicUsize>()", "payload alignment > 8 through UniqueArc::new_uninit only"),
 "C05-2": ("C05", "allocate_for_header_and_slice computes the slice size with wrapping_mul (overflow yields a short block)", "a length whose size computation wraps usize, e.g. (1<<61)+1 u64 elements"),
 "C05-3": ("C05", "UniqueArc::into_inner frees with a recomputed layout without pad_to_align", "into_inner / try_unwrap / unwrap_or_clone with a payload whose size is not a multiple of its ArcInner alignment (u8, u16, u32, [u8;3])"),
 "C08-1": ("C08", "Arc::make_mut tests uniqueness with a Relaxed load", "writer's in-place branch after a reader thread read and dropped; ordering only"),
 "C08-2": ("C08", "Arc::make_unique installs the copy with ptr::write: the old allocation keeps its owner", "make_unique on a shared handle, then the old allocation's count / destruction observed"),
 "C08-3": ("C08", "OffsetArc::make_mut goes through clone_arc: it always copies, even for a sole owner", "OffsetArc::make_mut on a sole owner + allocation identity or Clone counter"),
 "C09-1": ("C09", "Arc::try_unwrap releases its reference first and re-increments on decline (check-then-act)", "another owner's drop/try_unwrap lands between the decrement and the re-increment"),
 "C09-2": ("C09", "UniqueArc::into_inner reads the value at a hard-coded offset of 8 bytes", "over-aligned payload (align 16/32/64) through into_inner / try_unwrap / unwrap_or_clone"),
 "C09-3": ("C09", "Arc::unwrap_or_clone never releases its owner on the shared path", "unwrap_or_clone on a shared handle, then count / later unwrap / destructor tracking"),
 "C10-1": ("C10", "Arc::into_thin accepts recorded length <= slice length", "hand-built fat Arc recording a strictly smaller length"),
 "C10-2": ("C10", "ThinArc::with_arc_mut loses the write-back on the panic path", "callback replaces the Arc and then panics"),
 "C10-3": ("C10", "ThinArc::with_arc releases its transient fat Arc when the callback panics", "a panicking with_arc callback, or a panicking PartialEq/Ord/Hash reached through ThinArc ==/cmp/hash"),
 "C06-1": ("C06", "from_header_and_vec skips copy+set_len(0) for zero-sized elements: they are destroyed twice", "zero-sized element type with a destructor, length >= 1, through a Vec-consuming constructor or an inexact size hint"),
 "C06-2": ("C06", "from_header_and_slice copies elements to data+size_of::<H>(), ignoring padding", "header/element pair whose alignments differ (u8 header + u32 elements, ...)"),
 "C06-3": ("C06", "From<Box<T>> frees the box storage only if T needs_drop", "From<Box<T>> with plain-data T and an allocation-accounting oracle"),
 "C07-1": ("C07", "OffsetArc::make_mut without ManuallyDrop: a panicking Clone decrements the count while the handle stays alive", "shared handle + Clone::clone panics"),
 "C07-2": ("C07", "Arc::from_header_and_iter fills with items.by_ref().take(n): the over-report check disappears, trailing slots stay uninitialised", "an ExactSizeIterator reporting more than it yields"),
 "C07-3": ("C07", "UniqueArc::new_uninit writes the count before the null check", "the allocation of UniqueArc::new_uninit fails"),
 "C11-1": ("C11", "Arc::from_raw_offset computes the block with a constant 8-byte offset", "over-aligned payload through into_raw_offset/from_raw_offset or OffsetArc drop"),
 "C11-2": ("C11", "arc-swap RefCnt::as_ptr for Arc returns the block address", "feature arc-swap: RefCnt::as_ptr or an ArcSwapAny::load guard"),
 "C11-3": ("C11", "ThinArc's field becomes *const instead of NonNull: Option<ThinArc> loses its niche", "size_of::<Option<ThinArc<..>>>()"),
 "C12-1": ("C12", "ArcUnion::clone bumps the count through the first type's header offset for both variants", "second variant, alignments differ with one > 8"),
 "C12-2": ("C12", "ArcUnion::ptr_eq ignores the tag and == short-circuits on it", "A == B, from_first and from_second over the same allocation"),
 "C12-3": ("C12", "ArcUnion::drop fast path releases a no-drop-glue second variant as Arc<A>", "no drop glue, same alignment, different sizes, second variant, last release through the union"),
 "C14-1": ("C14", "Arc's <= implemented as !(a > b)", "an incomparable pair (NaN) through Arc and the <= operator"),
 "C14-2": ("C14", "Ord::cmp of HeaderSlice<HeaderWithLength<H>,T> compares the recorded length before the slice (shortlex)", "cmp specifically, equal headers, different lengths, shorter slice lexicographically greater"),
 "C14-3": ("C14", "ArcUnion == compares addresses for second/second", "both second variant, equal values, distinct allocations"),
 "C15-1": ("C15", "from_header_and_uninit_slice copies the header bytewise without forgetting the original: header destroyed twice", "a header type with a destructor"),
 "C15-2": ("C15", "UniqueArc::<MaybeUninit<T>>::assume_init moves the value into a fresh allocation", "allocation identity across assume_init"),
 "C15-3": ("C15", "deprecated Arc::write writes the slot before checking uniqueness", "shared handle, panic caught, the other owner's view inspected"),
 "C16-1": ("C16", "ThinArc::clone increments with a raw fetch_add, bypassing the overflow guard", "ThinArc::clone with a preset count above isize::MAX"),
 "C16-2": ("C16", "no_std abort(): the PanicOnDrop guard is dropped immediately, leaving a single catchable panic", "--no-default-features and a preset count above isize::MAX, observed with catch_unwind / exit status"),
 "C16-3": ("C16", "MAX_REFCOUNT lowered to i32::MAX", "64-bit target and a preset count of 2^31 or 2^32"),
 "C17-1": ("C17", "UniqueArc::serialize wraps in serialize_newtype_struct", "UniqueArc + exact comparison of Serializer calls"),
 "C17-2": ("C17", "Arc::deserialize returns a clone of a forgotten handle: count 2", "count / uniqueness inspection after a successful deserialisation"),
 "C17-3": ("C17", "UniqueArc::deserialize allocates the slot before deserialising: an error leaks the block", "a failing deserializer + allocation accounting"),
 "C01-4": ("C01", "ArcInner::offset_of_data extends the count layout with a byte array: the data offset is always 8", "payload aligned above 8 through any data-pointer round trip (into_raw/from_raw, OffsetArc, ArcBorrow, ArcUnion, arc-swap)"),
 "C01-5": ("C01", "arc-swap RefCnt::into_ptr for Arc returns as_ptr of a handle it then drops", "feature arc-swap: an Arc stored in an ArcSwapAny"),
 "C01-6": ("C01", "UniqueArc::into_inner fast path for zero-sized T never frees the block", "zero-sized payload released by into_inner / try_unwrap / unwrap_or_clone"),
 "C02-4": ("C02", "OffsetArc::drop does its own fetch_sub with Acquire instead of Release", "a non-final OffsetArc drop followed by another thread's final drop; happens-before checker only"),
 "C02-5": ("C02", "Arc::clone: if load()==1 { store(2) } else { fetch_add }", "count exactly 1 and two threads cloning through the same handle (shared &Arc / ArcBorrow copies)"),
 "C02-6": ("C02", "ThinArc::drop decrements first and reads header.length from the payload afterwards", "a non-final ThinArc drop with another thread's final drop and free landing before the length read"),
 "C05-4": ("C05", "new_uninit_slice reserves bytes through the [MaybeUninit<u8>] instantiation: element alignment never reaches the allocator", "new_uninit_slice with align_of::<T>() > 8"),
 "C05-5": ("C05", "ThinArc::drop deallocates with the layout of the thin [T;0] pointer", "last handle dropped is a ThinArc with a non-empty slice"),
 "C05-6": ("C05", "allocate_for_header_and_slice sums header+padding+elements with wrapping_add", "length within a few bytes of usize::MAX / size_of::<T>() with a non-trivial header"),
 "C06-4": ("C06", "FromIterator takes iter.take(lower) down the exact path for non-exact hints with lower > 0", "an iterator with 0 < lower and upper != Some(lower) yielding more than lower items"),
 "C06-5": ("C06", "from_header_and_vec frees the Vec buffer with Vec::from_raw_parts(src, 0, len)", "a Vec with capacity > len"),
 "C06-6": ("C06", "from_header_and_str copies chars().count() bytes", "non-ASCII text"),
 "C07-4": ("C07", "unwrap_or_clone keeps its handle in ManuallyDrop across T::clone and releases it afterwards", "Clone panics on a shared Arc: the release is skipped"),
 "C07-5": ("C07", "from_header_and_iter queries items.len() twice (allocation vs fill loop)", "an ExactSizeIterator whose answer changes between calls"),
 "C07-6": ("C07", "try_allocate_for_layout turns a null allocation into expect(..): a catchable panic", "allocation #1 of a header/slice constructor fails"),
 "C10-4": ("C10", "Arc::into_thin wraps its argument in ManuallyDrop before the length assert: a refused Arc leaks", "a refused into_thin (recorded length != slice length)"),
 "C10-5": ("C10", "with_arc_mut's guard releases the old allocation a second time when the callback replaced the Arc", "callback installs a different allocation (with or without panicking)"),
 "C10-6": ("C10", "thin_to_thick reads the length through ArcInner<HeaderWithLength<H>>: wrong offset for over-aligned elements", "element type with alignment 16 or more"),
 "C11-4": ("C11", "offset_of_data caps the payload alignment at 16", "payload aligned to 32/64 through any from_raw-based path"),
 "C11-5": ("C11", "from_raw_slice returns a fresh empty allocation for length-0 pointers", "zero-length Arc<[T]> through into_raw -> from_raw_slice"),
 "C11-6": ("C11", "ArcBorrow's unsize CoerciblePtr returns the block pointer", "feature unsize: an unsized ArcBorrow"),
 "C14-4": ("C14", "Hash for Arc<T> returns early for zero-size payloads", "hash / Borrow lookup with an empty str or empty slice"),
 "C14-5": ("C14", "Debug for OffsetArc formats through write!(\"{:?}\"): formatter flags dropped", "{:?} with a flag ({:#?}, width, precision) on an OffsetArc"),
 "C14-6": ("C14", "PartialOrd for ThinArc compares the slice before the header", "a pair differing in both header and slice with the two orders disagreeing; partial_cmp/</<=/>/>= only"),
}
detect = {}
dp = os.path.join(ROOT, "seeded", "detect.json")
if os.path.exists(dp):
    detect = json.load(open(dp))
for name, (prop, what, needs) in sorted(S.items()):
    d = os.path.join(ROOT, "seeded", name)
    if not os.path.isdir(d):
        continue
    conf = open(os.path.join(d, "confirm.txt")).read().strip().splitlines() if os.path.exists(os.path.join(d, "confirm.txt")) else []
    meta = dict(seed=name, breaks_property=prop, change=what, needs_to_manifest=needs,
                source="written by an independent sub-agent given only the property text and a scratch worktree",
                confirmed_in_scratch_worktree=conf,
                detection=detect.get(name, "see DESIGN.md section 6"))
    json.dump(meta, open(os.path.join(d, "meta.json"), "w"), indent=1)
print("wrote", len(S), "meta.json files")
