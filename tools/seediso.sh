#!/bin/bash
# usage: tools/seediso.sh <slot> <seedname>:<prop>[,<prop>...] ...
# Runs seeded changes against the checks in an isolated copy (/tmp/mut<slot>/{repo,verif}) so /repo is untouched
# and the main tree stays usable meanwhile. Calibration only: kept seeds are re-confirmed against /repo itself.
set -u
slot="$1"; shift
root=/tmp/mut$slot
mkdir -p $root
if [ ! -d $root/repo ]; then git -C /repo worktree add -q --detach $root/repo HEAD || exit 2; fi
git -C $root/repo checkout -q --detach $(git -C /repo rev-parse HEAD) && git -C $root/repo checkout -q -- .
rsync -a --delete --exclude .build --exclude .logs --exclude .git --exclude replays --exclude evidence /verif/ $root/verif/
sed -i "s#path = \"/repo\"#path = \"$root/repo\"#" $root/verif/harness/Cargo.toml
for item in "$@"; do
  name=${item%%:*}; props=${item#*:}
  echo "##### $name"
  git -C $root/repo checkout -q -- . ; git -C $root/repo apply /verif/seeded/$name/patch.diff || { echo "patch failed"; continue; }
  for p in ${props//,/ }; do
    start=$(date +%s)
    out=$(cd $root/verif && ./check "$p" --tier ${TIER:-quick} 2>&1); rc=$?
    echo "== $name $p rc=$rc ($(( $(date +%s) - start ))s)"
    echo "$out" | grep -E "VIOLATION|INCONCLUSIVE|OK property|^  \[" | head -3 | cut -c1-330
  done
  git -C $root/repo checkout -q -- .
done
