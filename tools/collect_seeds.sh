#!/bin/bash
# usage: tools/collect_seeds.sh <Cxx> <worktree>  -- copy <worktree>/_seed/<i>/ to seeded/<Cxx>-<next free n>/ and remove the worktree
p=$1; wt=$2
for d in $wt/_seed/*/; do
  [ -f $d/patch.diff ] || continue
  n=1; while [ -d /verif/seeded/$p-$n ]; do n=$((n+1)); done
  mkdir -p /verif/seeded/$p-$n
  cp $d/patch.diff $d/demo.rs $d/README.md /verif/seeded/$p-$n/ 2>/dev/null
  echo "$p-$n <- $d"
done
git -C /repo worktree remove --force $wt
