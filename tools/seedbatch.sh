#!/bin/bash
# usage: tools/seedbatch.sh <seedname>:<prop>[,<prop>...] ...   runs sequentially, prints a table
for item in "$@"; do
  name=${item%%:*}; props=${item#*:}
  echo "##### $name"
  LINES_MAX=3 tools/seedtest.sh /verif/seeded/$name/patch.diff ${props//,/ } 2>&1 | grep -E "^==|VIOLATION|INCONCL|^  \[" | cut -c1-330
done
