#!/bin/bash
# usage: tools/seedtest.sh <patch.diff> <prop> [<prop>...]   -- apply a seeded change to /repo, run the quick checks, restore /repo
set -u
patch="$1"; shift
cd /repo || exit 2
if [ -n "$(git status --porcelain --untracked-files=no)" ]; then echo "/repo not clean"; exit 2; fi
git apply "$patch" || { echo "patch does not apply"; exit 2; }
trap 'git -C /repo checkout -- . ' EXIT
cd /verif
for p in "$@"; do
  start=$(date +%s)
  out=$(./check "$p" --tier ${TIER:-quick} 2>&1); rc=$?
  echo "== $p rc=$rc ($(( $(date +%s) - start ))s)"
  echo "$out" | grep -E "VIOLATION|INCONCLUSIVE|OK property|^  \[" | head -${LINES_MAX:-6} | cut -c1-400
done
