#!/usr/bin/env python3
"""usage: tools/regress_from_logs.py <seediso log>...  -- merge the results of tools/seediso.sh runs into seeded/regress.json
(seed name -> what the seed's own property check said with the change applied, and its first reports)."""
import json, os, re, sys
ROOT = os.path.dirname(os.path.dirname(os.path.abspath(__file__)))
path = os.path.join(ROOT, "seeded", "regress.json")
reg = json.load(open(path)) if os.path.exists(path) else {}
for fn in sys.argv[1:]:
    cur = None
    for line in open(fn, errors="replace"):
        line = line.rstrip("\n")
        m = re.match(r"== (\S+) (C\d\d) rc=(\d+) \((\d+)s\)", line)
        if m:
            name, prop, rc, secs = m.group(1), m.group(2), int(m.group(3)), m.group(4)
            own = name.startswith(prop) or name.startswith("own")
            if not own and name in reg and "rc=1" in reg[name]["result"]:
                cur = None  # a secondary property's run never replaces the own-property record
                continue
            cur = reg[name] = dict(result="./check %s --tier quick with the change applied (isolated copy, final code): rc=%d (%ss)" % (prop, rc, secs), first_reports=[])
            continue
        if cur is not None and line.startswith("  [") and len(cur["first_reports"]) < 2:
            cur["first_reports"].append(line.strip()[:330])
        if line.startswith("#####"):
            cur = None
json.dump(reg, open(path, "w"), indent=1, sort_keys=True)
bad = sorted(k for k, v in reg.items() if "rc=1" not in v["result"])
print("%d seeds recorded, %d detected; not detected: %s" % (len(reg), len(reg) - len(bad), bad))
