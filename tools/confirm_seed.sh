#!/bin/bash
# usage: tools/confirm_seed.sh <seedname>...  -- confirm in a scratch worktree that each seeded change compiles, passes the
# existing tests, and that its demo fails with the change and passes without it. Writes seeded/<name>/confirm.txt
wt=/tmp/confirm_wt
git -C /repo worktree remove --force $wt 2>/dev/null
git -C /repo worktree add -q --detach $wt HEAD || exit 2
export CARGO_NET_OFFLINE=true
for name in "$@"; do
  d=/verif/seeded/$name
  out=$d/confirm.txt
  cd $wt && git checkout -q -- . && rm -rf tests
  feats=""
  grep -q 'unsize\|arc_swap\|arc-swap' $d/patch.diff $d/demo.rs 2>/dev/null && feats="--features unsize,arc-swap"
  grep -q -- "--no-default-features --test" $d/README.md 2>/dev/null && feats="--no-default-features"
  grep -q "extern crate serde" $d/demo.rs 2>/dev/null && printf '\n[dev-dependencies]\nserde = "1.0"\n' >> Cargo.toml
  {
    echo "seed: $name   date: $(date -u +%F)   base: $(git -C /repo rev-parse --short HEAD)"
    git apply $d/patch.diff && echo "patch applies: yes (demo flags: $feats)" || { echo "patch applies: NO"; continue; }
    cargo build --offline -q 2>/dev/null && cargo build --offline -q --no-default-features 2>/dev/null && cargo build --offline -q --features unsize,arc-swap 2>/dev/null && echo "builds (default / no-default / unsize,arc-swap): yes" || echo "builds: NO"
    t=$(cargo test --offline $feats 2>&1 | grep "test result" | head -1); echo "existing tests with the change: $t"
    mkdir -p tests && cp $d/demo.rs tests/seed_demo.rs
    mode=native
    # demos that need a release build or the hook cfg say so in their README / source
    [ -z "${CONFIRM_NO_RELEASE:-}" ] && grep -q -- "--release --test" $d/README.md 2>/dev/null && feats="$feats --release"
    grep -q "cfg(triomphe_verif)\|verif_hooks" $d/demo.rs 2>/dev/null && export RUSTFLAGS="--cfg triomphe_verif"
    r=$(cargo test --offline $feats --test seed_demo 2>&1 | grep -E "test result|error(\[|:)|signal|SIG" | head -2 | tr '\n' ' ')
    if echo "$r" | grep -q "test result: ok"; then
      mode=miri
      r=""
      for s in 0 1 2 3 4 5 6 7; do
        m=$(MIRIFLAGS="-Zmiri-permissive-provenance -Zmiri-seed=$s" cargo +nightly miri test --offline $feats --test seed_demo 2>&1 | grep -E "test result|Undefined Behavior|error: " | head -2 | tr '\n' ' ')
        r="$r [seed $s: $m]"
        echo "$m" | grep -q "test result: ok" || break
      done
    fi
    echo "demo with the change ($mode): $r"
    git checkout -q -- src
    if [ $mode = native ]; then
      r2=$(cargo test --offline $feats --test seed_demo 2>&1 | grep -E "test result|error(\[|:)" | head -1)
    else
      r2=$(MIRIFLAGS="-Zmiri-permissive-provenance -Zmiri-seed=$s" cargo +nightly miri test --offline $feats --test seed_demo 2>&1 | grep -E "test result|Undefined Behavior|error: " | head -1)
    fi
    echo "demo without the change ($mode): $r2"
    unset RUSTFLAGS
  } > $out 2>&1
  echo "== $name"; cat $out | tail -4 | cut -c1-300
done
cd /; git -C /repo worktree remove --force $wt
