//! PRNG, argument parsing, JSON helpers, violation sink.
use std::collections::BTreeMap;
use std::fmt::Write as _;
use std::sync::Mutex;

#[derive(Clone)]
pub struct Rng(pub u64);

impl Rng {
    pub fn new(seed: u64) -> Rng {
        let mut r = Rng(seed ^ 0x9E37_79B9_7F4A_7C15);
        r.next();
        r
    }
    /// splitmix64
    pub fn next(&mut self) -> u64 {
        self.0 = self.0.wrapping_add(0x9E37_79B9_7F4A_7C15);
        let mut z = self.0;
        z = (z ^ (z >> 30)).wrapping_mul(0xBF58_476D_1CE4_E5B9);
        z = (z ^ (z >> 27)).wrapping_mul(0x94D0_49BB_1331_11EB);
        z ^ (z >> 31)
    }
    pub fn below(&mut self, n: usize) -> usize {
        if n == 0 {
            0
        } else {
            (self.next() % n as u64) as usize
        }
    }
    pub fn chance(&mut self, num: u32, den: u32) -> bool {
        (self.next() % den as u64) < num as u64
    }
    pub fn pick<'a, T>(&mut self, v: &'a [T]) -> &'a T {
        &v[self.below(v.len())]
    }
}

pub struct Args {
    pub engine: String,
    map: BTreeMap<String, String>,
}

impl Args {
    pub fn parse() -> Args {
        let mut it = std::env::args().skip(1);
        let engine = it.next().unwrap_or_default();
        let mut map = BTreeMap::new();
        for a in it {
            if let Some((k, v)) = a.split_once('=') {
                map.insert(k.to_string(), v.to_string());
            } else {
                map.insert(a, "1".to_string());
            }
        }
        Args { engine, map }
    }
    pub fn u64(&self, k: &str, d: u64) -> u64 {
        self.map.get(k).and_then(|v| v.parse().ok()).unwrap_or(d)
    }
    pub fn str(&self, k: &str, d: &str) -> String {
        self.map.get(k).cloned().unwrap_or_else(|| d.to_string())
    }
    pub fn has(&self, k: &str) -> bool {
        self.map.contains_key(k)
    }
}

pub fn jstr(s: &str) -> String {
    let mut o = String::with_capacity(s.len() + 2);
    o.push('"');
    for c in s.chars() {
        match c {
            '"' => o.push_str("\\\""),
            '\\' => o.push_str("\\\\"),
            '\n' => o.push_str("\\n"),
            '\t' => o.push_str("\\t"),
            c if (c as u32) < 0x20 => {
                let _ = write!(o, "\\u{:04x}", c as u32);
            }
            c => o.push(c),
        }
    }
    o.push('"');
    o
}

pub fn jlist(v: &[String]) -> String {
    let mut o = String::from("[");
    for (i, s) in v.iter().enumerate() {
        if i > 0 {
            o.push(',');
        }
        o.push_str(&jstr(s));
    }
    o.push(']');
    o
}

/// A counter table printed as a JSON object.
#[derive(Default, Clone)]
pub struct Counts(pub BTreeMap<String, u64>);

impl Counts {
    pub fn bump(&mut self, k: &str) {
        self.add(k, 1);
    }
    pub fn add(&mut self, k: &str, n: u64) {
        if let Some(v) = self.0.get_mut(k) {
            *v += n;
        } else {
            self.0.insert(k.to_string(), n);
        }
    }
    pub fn get(&self, k: &str) -> u64 {
        self.0.get(k).copied().unwrap_or(0)
    }
    pub fn merge(&mut self, o: &Counts) {
        for (k, v) in &o.0 {
            self.add(k, *v);
        }
    }
    pub fn json(&self) -> String {
        let mut o = String::from("{");
        for (i, (k, v)) in self.0.iter().enumerate() {
            if i > 0 {
                o.push(',');
            }
            let _ = write!(o, "{}:{}", jstr(k), v);
        }
        o.push('}');
        o
    }
}

/// A violation of one or more properties, observed by one of the harness oracles.
#[derive(Clone, Debug)]
pub struct Viol {
    pub props: &'static str, // comma separated property ids this oracle refutes
    pub oracle: &'static str,
    pub msg: String,
}

pub type R<T = ()> = Result<T, Viol>;

pub fn viol<T>(props: &'static str, oracle: &'static str, msg: String) -> R<T> {
    Err(Viol { props, oracle, msg })
}

#[macro_export]
macro_rules! ensure {
    ($cond:expr, $props:expr, $oracle:expr, $($fmt:tt)*) => {
        if !($cond) {
            return Err($crate::util::Viol { props: $props, oracle: $oracle, msg: format!($($fmt)*) });
        }
    };
}

static EMITTED: Mutex<u64> = Mutex::new(0);

/// Print a violation record for the driver. `ctx` is a JSON object body fragment (no braces).
pub fn emit_violation(v: &Viol, engine: &str, seed: u64, case: &str, trace: &[String]) {
    let mut n = EMITTED.lock().unwrap_or_else(|e| e.into_inner());
    *n += 1;
    println!(
        "@@{{\"t\":\"viol\",\"props\":{},\"oracle\":{},\"msg\":{},\"engine\":{},\"seed\":{},\"case\":{},\"trace\":{}}}",
        jstr(v.props),
        jstr(v.oracle),
        jstr(&v.msg),
        jstr(engine),
        seed,
        jstr(case),
        jlist(trace)
    );
}

pub fn emitted() -> u64 {
    *EMITTED.lock().unwrap_or_else(|e| e.into_inner())
}

/// Run `f`, turning a panic into `Err(message)`.
thread_local! {
    static CATCH_DEPTH: std::cell::Cell<u32> = const { std::cell::Cell::new(0) };
}

pub fn catch<T>(f: impl FnOnce() -> T) -> Result<T, String> {
    let _ = CATCH_DEPTH.try_with(|d| d.set(d.get() + 1));
    let r = std::panic::catch_unwind(std::panic::AssertUnwindSafe(f));
    let _ = CATCH_DEPTH.try_with(|d| d.set(d.get().saturating_sub(1)));
    match r {
        Ok(v) => Ok(v),
        Err(e) => {
            // the message is harness bookkeeping: keep it out of the shadow allocator's books
            let s = crate::shadow::untracked(|| {
                if let Some(s) = e.downcast_ref::<&str>() {
                    s.to_string()
                } else if let Some(s) = e.downcast_ref::<String>() {
                    s.clone()
                } else {
                    "<non-string panic>".to_string()
                }
            });
            drop(e);
            Err(s)
        }
    }
}

/// Silence the default panic message for panics the harness provokes on purpose.
pub fn quiet_panics() {
    std::panic::set_hook(Box::new(|info| {
        if std::env::var_os("TV_LOUD").is_some() {
            eprintln!("panic: {}", info);
        }
        // a panic outside every `catch` scope is not one the harness provoked: leave a record saying where it was
        // raised (library or harness) and which library operation was in flight, so the driver can attribute it
        if CATCH_DEPTH.try_with(|d| d.get()).unwrap_or(0) == 0 {
            let loc = info.location().map(|l| format!("{}:{}", l.file(), l.line())).unwrap_or_default();
            let p = CUR_OP.load(std::sync::atomic::Ordering::Relaxed);
            let n = CUR_LEN.load(std::sync::atomic::Ordering::Relaxed);
            let op = if p.is_null() {
                String::new()
            } else {
                String::from_utf8_lossy(unsafe { std::slice::from_raw_parts(p, n) }).to_string()
            };
            let msg: String = format!("{}", info).chars().filter(|c| *c != '"' && *c != '\\' && !c.is_control()).take(300).collect();
            println!("\n@@{{\"t\":\"panic\",\"loc\":\"{}\",\"op\":\"{}\",\"msg\":\"{}\"}}", loc.replace('"', "").replace('\\', "/"), op, msg);
            use std::io::Write;
            let _ = std::io::stdout().flush();
        }
    }));
}

pub fn hash64(s: &str) -> u64 {
    let mut h: u64 = 0xcbf29ce484222325;
    for b in s.bytes() {
        h ^= b as u64;
        h = h.wrapping_mul(0x100000001b3);
    }
    h
}

pub fn jset(s: &std::collections::BTreeSet<u64>) -> String {
    let mut o = String::from("[");
    for (i, v) in s.iter().take(20000).enumerate() {
        if i > 0 {
            o.push(',');
        }
        let _ = write!(o, "{}", v);
    }
    o.push(']');
    o
}

// ---- crash attribution ------------------------------------------------------------------------
// The engines note which operation (and which properties it serves) is in flight; if the process
// dies with a fatal signal inside the library, a handler prints one record so the driver can
// attribute the crash instead of calling the run inconclusive.

static CUR_OP: std::sync::atomic::AtomicPtr<u8> =
    std::sync::atomic::AtomicPtr::new(std::ptr::null_mut());
static CUR_LEN: std::sync::atomic::AtomicUsize = std::sync::atomic::AtomicUsize::new(0);

/// `what` = "<props>|<operation>", e.g. "C09,C01|UniqueArc::into_inner".
#[inline]
pub fn set_op(what: &'static str) {
    CUR_LEN.store(what.len(), std::sync::atomic::Ordering::Relaxed);
    CUR_OP.store(
        what.as_ptr() as *mut u8,
        std::sync::atomic::Ordering::Relaxed,
    );
}

#[cfg(all(unix, not(miri)))]
mod crash {
    extern "C" {
        fn signal(sig: i32, handler: usize) -> usize;
        fn write(fd: i32, buf: *const u8, n: usize) -> isize;
        fn raise(sig: i32) -> i32;
    }
    extern "C" fn on_signal(sig: i32) {
        unsafe {
            let p = super::CUR_OP.load(std::sync::atomic::Ordering::Relaxed);
            let n = super::CUR_LEN.load(std::sync::atomic::Ordering::Relaxed);
            let head = b"\n@@{\"t\":\"crash\",\"sig\":";
            write(1, head.as_ptr(), head.len());
            let d = [b'0' + (sig / 10) as u8, b'0' + (sig % 10) as u8];
            write(1, d.as_ptr(), 2);
            let mid = b",\"op\":\"";
            write(1, mid.as_ptr(), mid.len());
            if !p.is_null() {
                write(1, p, n);
            }
            let tail = b"\"}\n";
            write(1, tail.as_ptr(), tail.len());
            signal(sig, 0);
            raise(sig);
        }
    }
    pub fn install() {
        unsafe {
            for sig in [11, 7, 4, 8] {
                signal(sig, on_signal as usize);
            }
        }
    }
}

/// Install the fatal-signal reporter (native, non-sanitizer runs only).
pub fn install_crash_reporter() {
    #[cfg(all(unix, not(miri)))]
    crash::install();
}

/// A hasher that is sensitive to *how* it is fed, like the per-call hashers in wide use (FxHasher, ahash, ...):
/// every `write*` call mixes in which method was called and with how many bytes, so "one write of n bytes" and
/// "n writes of one byte" give different results although the byte stream is the same. A handle's `Hash` must feed
/// any hasher exactly like the value's `Hash` does.
#[derive(Default)]
pub struct CallHasher {
    acc: u64,
    calls: u64,
}
impl CallHasher {
    pub fn new() -> Self {
        CallHasher { acc: 0xcbf2_9ce4_8422_2325, calls: 0 }
    }
    fn mix(&mut self, kind: u8, bytes: &[u8]) {
        self.calls += 1;
        let mut a = self.acc ^ ((kind as u64) << 56) ^ (bytes.len() as u64).wrapping_mul(0x9E37_79B9_7F4A_7C15);
        a = a.wrapping_mul(0x0000_0100_0000_01B3);
        for b in bytes {
            a ^= *b as u64;
            a = a.wrapping_mul(0x0000_0100_0000_01B3);
        }
        self.acc = a.rotate_left(5) ^ self.calls;
    }
}
impl std::hash::Hasher for CallHasher {
    fn finish(&self) -> u64 {
        self.acc
    }
    fn write(&mut self, bytes: &[u8]) {
        self.mix(1, bytes)
    }
    fn write_u8(&mut self, i: u8) {
        self.mix(2, &[i])
    }
    fn write_u16(&mut self, i: u16) {
        self.mix(3, &i.to_le_bytes())
    }
    fn write_u32(&mut self, i: u32) {
        self.mix(4, &i.to_le_bytes())
    }
    fn write_u64(&mut self, i: u64) {
        self.mix(5, &i.to_le_bytes())
    }
    fn write_u128(&mut self, i: u128) {
        self.mix(6, &i.to_le_bytes())
    }
    fn write_usize(&mut self, i: usize) {
        self.mix(7, &i.to_le_bytes())
    }
    fn write_i8(&mut self, i: i8) {
        self.mix(8, &i.to_le_bytes())
    }
    fn write_i16(&mut self, i: i16) {
        self.mix(9, &i.to_le_bytes())
    }
    fn write_i32(&mut self, i: i32) {
        self.mix(10, &i.to_le_bytes())
    }
    fn write_i64(&mut self, i: i64) {
        self.mix(11, &i.to_le_bytes())
    }
    fn write_i128(&mut self, i: i128) {
        self.mix(12, &i.to_le_bytes())
    }
    fn write_isize(&mut self, i: isize) {
        self.mix(13, &i.to_le_bytes())
    }
}

