//! tv: one binary, one sub-command per engine.
//! Output protocol: lines starting with "@@" are JSON records for the driver (/verif/check).
use tv::util::*;
use tv::{cmp, conc, ctor, faults, hist, overflow, shadow, thin, tk, uninit};

fn main() {
    let args = Args::parse();
    quiet_panics();
    // the shadow allocator is the allocator oracle only in plain native builds
    let want_shadow = args.u64("shadow", 1) == 1 && !cfg!(miri);
    shadow::set_fill(args.u64("fill", 0) as u8);
    shadow::enable(want_shadow);
    if want_shadow {
        install_crash_reporter();
    }
    let code = match args.engine.as_str() {
        "noop" => {
            println!("noop: debug_assertions={}", cfg!(debug_assertions));
            0
        }
        "hist" => engine_hist(&args),
        "thin" => engine_thin(&args),
        "slices" => engine_slices(&args),
        "conc" => engine_conc(&args),
        "ctor" => engine_ctor(&args),
        "faults" => engine_faults(&args),
        "cmp" => engine_cmp(&args),
        "uninit" => engine_uninit(&args),
        "overflow" => engine_overflow(&args),
        #[cfg(feature = "full")]
        "serde" => engine_serde(&args),
        "ovwide" => overflow::wide_child(args.u64("entry", 0) as usize, args.u64("start", 2) as usize),
        "wide" => engine_wide(&args),
        "ovrace" => overflow::race_child(args.u64("entry", 0) as usize, args.u64("phase", 9) as u8, args.u64("start", isize::MAX as u64) as usize),
        "ovchild" => overflow::child(args.u64("entry", 0) as usize, args.u64("start", 1) as usize),
        "allocchild" => {
            faults::alloc_child(args.u64("site", 0) as usize, args.u64("nth", 1) as i64)
        }
        other => {
            eprintln!("unknown engine {:?}", other);
            2
        }
    };
    std::process::exit(code);
}

fn engine_hist(args: &Args) -> i32 {
    let seed = args.u64("seed", 1);
    let n = args.u64("n", 100);
    let ops = args.u64("ops", 200) as usize;
    let first = args.u64("first", 0);
    let light = args.has("light");
    let mut st = hist::Stats::new();
    let mut nviol = 0;
    let shapes = ["T8", "T32", "TB", "T1", "Z", "T64", "Z16"];
    for k in first..first + n {
        let hseed = seed.wrapping_mul(0x1000_0000).wrapping_add(k);
        let shape = shapes[(k % shapes.len() as u64) as usize];
        let r = match shape {
            "T8" => hist::run_one::<tk::T8>(hseed, ops, light, &mut st),
            "T32" => hist::run_one::<tk::T32>(hseed, ops, light, &mut st),
            "TB" => hist::run_one::<tk::TB>(hseed, ops, light, &mut st),
            "T1" => hist::run_one::<tk::T1>(hseed, ops, light, &mut st),
            "Z" => hist::run_one::<tk::Z>(hseed, ops, light, &mut st),
            "T64" => hist::run_one::<tk::T64>(hseed, ops, light, &mut st),
            _ => hist::run_one::<tk::Z16>(hseed, ops, light, &mut st),
        };
        st.counts.bump(&format!("shape.{}", shape));
        if let Err((vs, trace)) = r {
            for v in &vs {
                emit_violation(
                    v,
                    "hist",
                    seed,
                    &format!("k={} shape={} ops={}", k, shape, ops),
                    &trace,
                );
            }
            nviol += 1;
            if nviol >= 5 {
                break;
            }
        }
    }
    println!(
        "@@{{\"t\":\"stats\",\"engine\":\"hist\",\"counts\":{},\"sets\":{{\"sigs\":{},\"nontrivial_sigs\":{},\"ctx_sigs\":{}}},\"shadow\":{},\"checked_frees\":{},\"overflow\":{},\"sample\":{}}}",
        st.counts.json(),
        jset(&st.sigs),
        jset(&st.nontrivial_sigs),
        jset(&st.ctx_sigs),
        shadow::active(),
        shadow::checked_frees(),
        shadow::overflowed(),
        jlist(&st.sample)
    );
    if nviol > 0 {
        1
    } else {
        0
    }
}

fn engine_thin(args: &Args) -> i32 {
    let seed = args.u64("seed", 1);
    let n = args.u64("n", 100);
    let ops = args.u64("ops", 200) as usize;
    let first = args.u64("first", 0);
    let light = args.has("light");
    let mut st = hist::Stats::new();
    let mut nviol = 0;
    let shapes = [
        "T8/T8", "Z/T8", "T32/T1", "T1/T32", "TB/TB", "T64/T8", "T8/T64", "Z16/T1",
    ];
    if let Err(v) = thin::zst_element_cases(&mut st) {
        emit_violation(&v, "thin", seed, "zero-sized elements", &[]);
        nviol += 1;
    }
    for k in first..first + n {
        let hseed = seed.wrapping_mul(0x1000_0000).wrapping_add(k);
        let shape = shapes[(k % shapes.len() as u64) as usize];
        let r = match shape {
            "T8/T8" => thin::run_one::<tk::T8, tk::T8>(hseed, ops, light, &mut st),
            "Z/T8" => thin::run_one::<tk::Z, tk::T8>(hseed, ops, light, &mut st),
            "T32/T1" => thin::run_one::<tk::T32, tk::T1>(hseed, ops, light, &mut st),
            "T1/T32" => thin::run_one::<tk::T1, tk::T32>(hseed, ops, light, &mut st),
            "TB/TB" => thin::run_one::<tk::TB, tk::TB>(hseed, ops, light, &mut st),
            "T64/T8" => thin::run_one::<tk::T64, tk::T8>(hseed, ops, light, &mut st),
            "T8/T64" => thin::run_one::<tk::T8, tk::T64>(hseed, ops, light, &mut st),
            _ => thin::run_one::<tk::Z16, tk::T1>(hseed, ops, light, &mut st),
        };
        st.counts.bump(&format!("thin.shape.{}", shape));
        if let Err((vs, trace)) = r {
            for v in &vs {
                emit_violation(
                    v,
                    "thin",
                    seed,
                    &format!("k={} shape={} ops={}", k, shape, ops),
                    &trace,
                );
            }
            nviol += 1;
            if nviol >= 5 {
                break;
            }
        }
    }
    println!(
        "@@{{\"t\":\"stats\",\"engine\":\"thin\",\"counts\":{},\"shadow\":{},\"checked_frees\":{},\"overflow\":{},\"sample\":{}}}",
        st.counts.json(),
        shadow::active(),
        shadow::checked_frees(),
        shadow::overflowed(),
        jlist(&st.sample)
    );
    if nviol > 0 {
        1
    } else {
        0
    }
}

fn engine_conc(args: &Args) -> i32 {
    let seed = args.u64("seed", 1);
    let n = args.u64("n", 100);
    let first = args.u64("first", 0);
    let len = args.u64("len", 8) as usize;
    let delay = args.u64("delay", 1) as u8;
    let forced = args.u64("forced", 0); // expand the first `forced` scenarios into a forced-preemption sweep
    let scen = args.str("scen", "all");
    let hooked = conc::install_hook(delay, seed);
    let mut st = conc::CStats::new();
    let mut nviol = 0;
    let run_scn = |k: u64, st: &mut conc::CStats| -> (Result<(), (Viol, Vec<String>)>, String, usize) {
        let cseed = seed.wrapping_mul(0x1000_0000).wrapping_add(k).wrapping_mul(0x9E37_79B9_7F4A_7C15) >> 8;
        let which = if scen == "all" { ["clonedrop", "uniqpoll", "cow", "unwraprace"][(k % 4) as usize].to_string() } else { scen.clone() };
        let nthreads = 2 + ((k / 4) % 3) as usize;
        let r = catch(|| match which.as_str() {
            "clonedrop" => match (k / 4) % 3 {
                0 => conc::clonedrop(cseed, &conc::make_w1, nthreads, len, st),
                1 => conc::clonedrop(cseed, &conc::make_w2, nthreads, len, st),
                _ => conc::clonedrop(cseed, &conc::make_w2_fat, nthreads, len, st),
            },
            "plaindrop" => conc::plaindrop(cseed, k as usize, nthreads, len, st),
            "uninitpoll" => conc::uninitpoll(cseed, k as usize, 1 + ((k / 2) % 2) as usize, st),
            "uniqpoll" => conc::uniqpoll(cseed, if scen == "all" { (k / 4) as usize } else { k as usize }, 1 + ((k / 32) % 2) as usize, st),
            "cow" => conc::cow(cseed, if scen == "all" { (k / 4) as usize } else { k as usize }, 1 + ((k / 12) % 2) as usize, st),
            _ => conc::unwraprace(cseed, 2 + ((k / 4) % 2) as usize, st),
        });
        let r = match r {
            Ok(r) => r,
            Err(msg) => Err((
                Viol {
                    props: match which.as_str() {
                        "clonedrop" | "plaindrop" => "C02",
                        "uninitpoll" => "C15,C03",
                        "uniqpoll" => "C03",
                        "cow" => "C08",
                        _ => "C09",
                    },
                    oracle: "panic",
                    msg: format!("[{}] the spawning thread panicked inside the library: {}", which, msg),
                },
                vec![],
            )),
        };
        (r, which, nthreads)
    };
    'outer: for k in first..first + n {
        conc::set_pause(255, 0, 0);
        let (r, which, nthreads) = run_scn(k, &mut st);
        st.counts.bump("conc.executions");
        let mut results = vec![(r, "free-running".to_string())];
        if k - first < forced && hooked && results[0].0.is_ok() {
            // hold each thread at each of its count operations (before and after) until the others are done
            let ords = st.last_ords.clone();
            for (tid, cnt) in ords.iter().enumerate() {
                for at in 0..(*cnt).min(if cfg!(miri) { 6 } else { 24 }) {
                    for phase in 0..2u8 {
                        conc::set_pause(tid as u8, at, phase);
                        let (r, _, _) = run_scn(k, &mut st);
                        st.counts.bump("conc.forced_runs");
                        if r.is_err() {
                            results.push((r, format!("thread {} held {} its count operation #{}", tid, if phase == 0 { "before" } else { "after" }, at)));
                            break;
                        }
                    }
                }
            }
            conc::set_pause(255, 0, 0);
            st.counts.bump("conc.forced_scenarios");
        }
        for (r, how) in results {
            if let Err((v, trace)) = r {
                if v.oracle == "harness" {
                    eprintln!("harness problem: {}", v.msg);
                    return 3;
                }
                emit_violation(&v, "conc", seed, &format!("k={} scen={} threads={} len={} delay={} schedule={}", k, which, nthreads, len, delay, how), &trace);
                nviol += 1;
                if nviol >= 3 {
                    break 'outer;
                }
            }
        }
    }
    println!(
        "@@{{\"t\":\"stats\",\"engine\":\"conc\",\"counts\":{},\"sets\":{{\"interleavings\":{},\"nontrivial_interleavings\":{}}},\"hooked\":{},\"sample\":{}}}",
        st.counts.json(),
        jset(&st.ileave),
        jset(&st.nontrivial),
        hooked,
        jlist(&st.sample)
    );
    if nviol > 0 {
        1
    } else {
        0
    }
}

fn ctor_dispatch(
    pair: usize,
    c: usize,
    n: usize,
    regime: u8,
    cap: usize,
    st: &mut ctor::CtStats,
) -> R {
    match pair {
        0 => ctor::case::<tk::T8, tk::T8>(c, n, regime, cap, st),
        1 => ctor::case::<tk::Z, tk::T8>(c, n, regime, cap, st),
        2 => ctor::case::<tk::T64, tk::T1>(c, n, regime, cap, st),
        3 => ctor::case::<tk::T8, tk::T32>(c, n, regime, cap, st),
        4 => ctor::case::<tk::T1, tk::TB>(c, n, regime, cap, st),
        5 => ctor::case::<tk::T8, tk::Z>(c, n, regime, cap, st),
        6 => ctor::case::<tk::Z16, tk::T64>(c, n, regime, cap, st),
        _ => ctor::case::<tk::T32, tk::Z16>(c, n, regime, cap, st),
    }
}
const CTOR_PAIRS: usize = 8;

fn engine_ctor(args: &Args) -> i32 {
    let seed = args.u64("seed", 1);
    let shard = args.u64("shard", 0);
    let nshards = args.u64("nshards", 1).max(1);
    let full = args.has("full");
    let maxlen = args.u64("maxlen", 1000) as usize;
    let rot = args.u64("rot", 1);
    let mut lens: Vec<usize> = (0..=70).collect();
    lens.extend([255, 256, 1000]);
    let mut st = ctor::CtStats::new();
    let mut nviol = 0;
    let mut idx = 0u64;
    let mut run = |r: R, case: String, nviol: &mut i32| {
        if let Err(v) = r {
            if *nviol < 5 {
                emit_violation(&v, "ctor", seed, &case, &[]);
            }
            *nviol += 1;
        }
    };
    for pair in 0..CTOR_PAIRS {
        for c in 0..ctor::NCTORS {
            for &n in lens.iter().filter(|n| **n <= maxlen) {
                idx += 1;
                if idx % nshards != shard {
                    continue;
                }
                let combos: Vec<(u8, usize)> = if full && matches!(c, 0 | 1 | 2 | 4 | 6) {
                    (0..6u8)
                        .flat_map(|r| (0..4usize).map(move |k| (r, k)))
                        .collect()
                } else {
                    (0..rot)
                        .map(|k| {
                            (
                                ((idx + seed + k) % 6) as u8,
                                ((idx / 5 + seed + k * 3) % 4) as usize,
                            )
                        })
                        .collect()
                };
                for (regime, cap) in combos {
                    let r = ctor_dispatch(pair, c, n, regime, cap, &mut st);
                    run(
                        r,
                        format!(
                            "pair={} c={} n={} regime={} cap={}",
                            pair, c, n, regime, cap
                        ),
                        &mut nviol,
                    );
                }
            }
        }
    }
    if shard == 0 {
        for c in 0..5 {
            run(
                ctor::sized_case::<tk::T8>(c, &mut st),
                format!("sized T8 c={}", c),
                &mut nviol,
            );
            run(
                ctor::sized_case::<tk::T32>(c, &mut st),
                format!("sized T32 c={}", c),
                &mut nviol,
            );
            run(
                ctor::sized_case::<tk::Z>(c, &mut st),
                format!("sized Z c={}", c),
                &mut nviol,
            );
            run(
                ctor::sized_case::<tk::TB>(c, &mut st),
                format!("sized TB c={}", c),
                &mut nviol,
            );
            run(
                ctor::sized_case::<tk::T64>(c, &mut st),
                format!("sized T64 c={}", c),
                &mut nviol,
            );
        }
        for &n in lens.iter().filter(|n| **n <= maxlen) {
            run(
                ctor::copy_cases(n, &mut st),
                format!("copy n={}", n),
                &mut nviol,
            );
        }
    }
    println!(
        "@@{{\"t\":\"stats\",\"engine\":\"ctor\",\"counts\":{},\"sets\":{{\"ctor_cases\":{}}},\"shadow\":{},\"checked_frees\":{},\"overflow\":{},\"sample\":{}}}",
        st.counts.json(),
        jset(&st.cases),
        shadow::active(),
        shadow::checked_frees(),
        shadow::overflowed(),
        jlist(&st.sample)
    );
    if nviol > 0 {
        1
    } else {
        0
    }
}

fn engine_faults(args: &Args) -> i32 {
    let seed = args.u64("seed", 1);
    let sizes: Vec<usize> = if args.has("big") {
        vec![0, 1, 2, 5, 17]
    } else if args.has("small") {
        vec![0, 2]
    } else {
        vec![0, 1, 3]
    };
    let part = args.str("part", "all");
    let only = if args.has("only") {
        Some(args.u64("only", 0) as usize)
    } else {
        None
    };
    let sel = |i: usize| only.map(|o| o == i).unwrap_or(true);
    let mut st = faults::FStats::new();
    let mut nviol = 0;
    let mut run = |r: R, case: String, nviol: &mut i32| -> bool {
        if let Err(v) = r {
            if v.oracle == "harness" {
                eprintln!("harness problem: {}", v.msg);
                return false;
            }
            if *nviol < 6 {
                emit_violation(&v, "faults", seed, &case, &[]);
            }
            *nviol += 1;
        }
        true
    };
    if part == "all" || part == "iter" {
        for site in (0..faults::ITER_SITES).filter(|s| sel(*s)) {
            for &n in &sizes {
                run(
                    faults::iter_panics(site, n, &mut st),
                    format!("iter site={} n={}", site, n),
                    &mut nviol,
                );
            }
            // lying iterators: every (reported, actual) with actual 0..=6, |diff| <= 2
            for actual in 0..=6usize {
                for d in -2i64..=2 {
                    let rep = actual as i64 + d;
                    if rep < 0 {
                        continue;
                    }
                    run(
                        faults::iter_lies(site, actual, vec![rep as usize], &mut st),
                        format!("lie site={} actual={} rep={}", site, actual, rep),
                        &mut nviol,
                    );
                }
                // absurd over-reports whose size computation overflows: refused with a panic before anything is written
                if site != 3 && (actual == 0 || actual == 3) {
                    let sz = std::mem::size_of::<tk::T8>();
                    for rep in [usize::MAX, usize::MAX / sz + 2, usize::MAX / sz + 1, usize::MAX / 2 + 1, isize::MAX as usize / sz + 1] {
                        run(
                            faults::iter_lies(site, actual, vec![rep], &mut st),
                            format!("lie site={} actual={} rep={:#x}", site, actual, rep),
                            &mut nviol,
                        );
                    }
                }
                // answers that change between calls
                for (a, b) in [
                    (0i64, 1i64),
                    (1, 0),
                    (0, -1),
                    (-1, 0),
                    (1, -1),
                    (2, 0),
                    (0, 2),
                ] {
                    let (ra, rb) = (actual as i64 + a, actual as i64 + b);
                    if ra < 0 || rb < 0 {
                        continue;
                    }
                    run(
                        faults::iter_lies(site, actual, vec![ra as usize, rb as usize], &mut st),
                        format!("lie site={} actual={} rep=[{},{}]", site, actual, ra, rb),
                        &mut nviol,
                    );
                    run(
                        faults::iter_lies(
                            site,
                            actual,
                            vec![ra as usize, rb as usize, actual],
                            &mut st,
                        ),
                        format!(
                            "lie site={} actual={} rep=[{},{},truth]",
                            site, actual, ra, rb
                        ),
                        &mut nviol,
                    );
                }
            }
        }
    }
    if part == "all" || part == "clone" {
        for site in (0..faults::CLONE_SITES).filter(|s| sel(*s)) {
            for co in 0..faults::CO_KINDS {
                run(
                    faults::clone_panics(site, co, &mut st),
                    format!("clone site={} co={}", site, co),
                    &mut nviol,
                );
            }
        }
    }
    if part == "all" || part == "closure" {
        for site in (0..faults::CLOSURE_SITES).filter(|s| sel(*s % 3)) {
            for shared in [false, true] {
                run(
                    faults::closure_panics(site, shared, &mut st),
                    format!("closure site={} shared={}", site, shared),
                    &mut nviol,
                );
            }
        }
    }
    if part == "all" || part == "cmp" {
        for h in (0..faults::CMP_HANDLES).filter(|s| sel(*s)) {
            for op in 0..faults::CMP_OPS {
                run(
                    faults::cmp_panics(h, op, &mut st),
                    format!("cmp h={} op={}", h, op),
                    &mut nviol,
                );
            }
        }
    }
    if part == "all" || part == "drop" {
        for site in (0..faults::DROP_SITES).filter(|s| sel(*s)) {
            for k in 1..=4 {
                run(faults::drop_panics(site, k, &mut st), format!("drop site={} k={}", site, k), &mut nviol);
            }
        }
        run(faults::nodrop_cases(&mut st), "nodrop".to_string(), &mut nviol);
        for site in 0..2 {
            run(faults::cow_drop_panics(site, &mut st), format!("cow+drop panic site={}", site), &mut nviol);
        }
    }
    if (part == "all" || part == "alloc") && shadow::active() {
        for site in 0..faults::ALLOC_SITES {
            if !run(
                faults::alloc_failures(site, &mut st),
                format!("alloc site={}", site),
                &mut nviol,
            ) {
                return 3;
            }
        }
    }
    let total = st.counts.get("faults.iter.runs")
        + st.counts.get("faults.lie.runs")
        + st.counts.get("faults.clone.runs")
        + st.counts.get("faults.closure.runs")
        + st.counts.get("faults.cmp.runs")
        + st.counts.get("faults.drop.runs")
        + st.counts.get("faults.nodrop.runs")
        + st.counts.get("faults.alloc.aborted-via-alloc-error")
        + st.counts.get("faults.alloc.no-more-allocations");
    st.counts.add("faults.injected_runs", total);
    println!(
        "@@{{\"t\":\"stats\",\"engine\":\"faults\",\"counts\":{},\"sets\":{{\"fault_cases\":{}}},\"shadow\":{},\"sample\":{}}}",
        st.counts.json(),
        jset(&st.cases),
        shadow::active(),
        jlist(&st.sample)
    );
    if nviol > 0 {
        1
    } else {
        0
    }
}

fn engine_cmp(args: &Args) -> i32 {
    let seed = args.u64("seed", 1);
    let limit = args.u64("limit", 0) as usize; // 0 = whole domain
    let extra = args.u64("extra", 60) as usize;
    let class = args.str("class", "all");
    let mut st = cmp::CmpStats::new();
    let mut nviol = 0;
    let mut dom = cmp::domain();
    let exhaustive = limit == 0;
    if limit > 0 {
        // a seeded subset (interpreters)
        let mut rng = Rng::new(seed);
        let mut pick = Vec::new();
        for _ in 0..limit {
            pick.push(dom[rng.below(dom.len())].clone());
        }
        dom = pick;
    }
    let more = cmp::seeded(seed, extra);
    for (name, vals) in [("domain", &dom), ("seeded", &more)] {
        if vals.is_empty() {
            continue;
        }
        let mut run = |r: R, cls: &str| {
            if let Err(v) = r {
                emit_violation(&v, "cmp", seed, &format!("{} {}", name, cls), &[]);
                nviol += 1;
            }
        };
        if class == "all" || class == "total" {
            run(cmp::class_total(vals, &mut st), "total");
        }
        if class == "all" || class == "partial" {
            run(cmp::class_partial(vals, &mut st), "partial");
        }
        if class == "all" || class == "eq" {
            run(cmp::class_eq(vals, &mut st), "eq");
        }
    }
    if class == "all" || class == "dyn" {
        if let Err(v) = cmp::class_dyn(&mut st) {
            emit_violation(&v, "cmp", seed, "dyn", &[]);
            nviol += 1;
        }
    }
    st.sample.push(format!("{:?} vs {:?} compared through Arc<HeaderSlice>, with recorded length, ThinArc, protected Arc, Arc<[T]>, Arc<T>, OffsetArc, ArcBorrow, ArcUnion", dom[0], dom[dom.len() - 1]));
    println!(
        "@@{{\"t\":\"stats\",\"engine\":\"cmp\",\"counts\":{},\"sets\":{{\"cmp_values\":{}}},\"exhaustive_domain\":{},\"sample\":{}}}",
        st.counts.json(),
        jset(&st.cases),
        exhaustive,
        jlist(&st.sample)
    );
    if nviol > 0 {
        1
    } else {
        0
    }
}

fn uninit_dispatch(pair: usize, len: usize, mask: u64, path: usize, st: &mut uninit::UStats) -> R {
    match pair {
        0 => uninit::slice_case::<tk::T8, tk::T8>(len, mask, path, st),
        1 => uninit::slice_case::<tk::Z, tk::T8>(len, mask, path, st),
        2 => uninit::slice_case::<tk::T8, tk::TB>(len, mask, path, st),
        3 => uninit::slice_case::<tk::T32, tk::T1>(len, mask, path, st),
        4 => uninit::slice_case::<tk::T8, tk::Z>(len, mask, path, st),
        _ => uninit::slice_case::<tk::T64, tk::T32>(len, mask, path, st),
    }
}

fn engine_uninit(args: &Args) -> i32 {
    let seed = args.u64("seed", 1);
    let shard = args.u64("shard", 0);
    let nshards = args.u64("nshards", 1).max(1);
    let maxlen = args.u64("maxlen", 33) as usize;
    let mut rng = Rng::new(seed);
    let mut st = uninit::UStats::new();
    let mut nviol = 0;
    let mut idx = 0u64;
    let mut run = |r: R, case: String, nviol: &mut i32| {
        if let Err(v) = r {
            if *nviol < 6 {
                emit_violation(&v, "uninit", seed, &case, &[]);
            }
            *nviol += 1;
        }
    };
    for pair in 0..6 {
        for len in 0..=maxlen {
            let masks: Vec<u64> = if len <= 4 {
                (0..(1u64 << len)).collect()
            } else {
                let all = if len >= 64 {
                    u64::MAX
                } else {
                    (1u64 << len) - 1
                };
                vec![
                    0,
                    all,
                    rng.next() & all,
                    rng.next() & all,
                    1,
                    1u64 << ((len - 1).min(63)),
                ]
            };
            for path in 0..uninit::SLICE_PATHS {
                idx += 1;
                if idx % nshards != shard {
                    continue;
                }
                if path >= 3 {
                    run(
                        uninit_dispatch(pair, len, u64::MAX, path, &mut st),
                        format!("pair={} len={} path={}", pair, len, path),
                        &mut nviol,
                    );
                } else {
                    for &m in &masks {
                        run(
                            uninit_dispatch(pair, len, m, path, &mut st),
                            format!("pair={} len={} mask={:#b} path={}", pair, len, m, path),
                            &mut nviol,
                        );
                    }
                }
            }
        }
    }
    if shard == 0 {
        for which in 0..5 {
            run(
                uninit::refused_len_case::<tk::T8, tk::T8>(which, &mut st),
                format!("refused length T8/T8 #{}", which),
                &mut nviol,
            );
            run(
                uninit::refused_len_case::<tk::TB, tk::T32>(which, &mut st),
                format!("refused length TB/T32 #{}", which),
                &mut nviol,
            );
            run(
                uninit::refused_len_case::<tk::Z, tk::T1>(which, &mut st),
                format!("refused length Z/T1 #{}", which),
                &mut nviol,
            );
        }
        for path in 0..uninit::SIZED_PATHS {
            run(
                uninit::sized_case::<tk::T8>(path, &mut st),
                format!("sized T8 path={}", path),
                &mut nviol,
            );
            run(
                uninit::sized_case::<tk::T32>(path, &mut st),
                format!("sized T32 path={}", path),
                &mut nviol,
            );
            run(
                uninit::sized_case::<tk::TB>(path, &mut st),
                format!("sized TB path={}", path),
                &mut nviol,
            );
            run(
                uninit::sized_case::<tk::T1>(path, &mut st),
                format!("sized T1 path={}", path),
                &mut nviol,
            );
            run(
                uninit::sized_case::<tk::Z>(path, &mut st),
                format!("sized Z path={}", path),
                &mut nviol,
            );
            run(
                uninit::sized_case::<tk::T64>(path, &mut st),
                format!("sized T64 path={}", path),
                &mut nviol,
            );
        }
    }
    println!(
        "@@{{\"t\":\"stats\",\"engine\":\"uninit\",\"counts\":{},\"sets\":{{\"uninit_cases\":{}}},\"shadow\":{},\"checked_frees\":{},\"sample\":{}}}",
        st.counts.json(),
        jset(&st.cases),
        shadow::active(),
        shadow::checked_frees(),
        jlist(&st.sample)
    );
    if nviol > 0 {
        1
    } else {
        0
    }
}

fn engine_wide(args: &Args) -> i32 {
    let seed = args.u64("seed", 1);
    let mut st = overflow::OStats::new();
    let mut nviol = 0;
    for api in 0..overflow::WIDE_APIS.len() {
        if let Err(v) = overflow::wide_parent(api, &mut st) {
            if v.oracle == "harness" {
                eprintln!("harness problem: {}", v.msg);
                return 3;
            }
            emit_violation(&v, "wide", seed, &format!("api={}", api), &[]);
            nviol += 1;
        }
    }
    println!(
        "@@{{\"t\":\"stats\",\"engine\":\"wide\",\"counts\":{},\"sets\":{{\"wide_cases\":{}}},\"hooked\":{},\"sample\":[]}}",
        st.counts.json(),
        jset(&st.cases),
        cfg!(triomphe_verif)
    );
    if nviol > 0 {
        1
    } else {
        0
    }
}

fn engine_overflow(args: &Args) -> i32 {
    let seed = args.u64("seed", 1);
    let mut st = overflow::OStats::new();
    let mut nviol = 0;
    for entry in 0..overflow::ENTRIES.len() {
        if let Err(v) = overflow::parent(entry, &mut st) {
            if v.oracle == "harness" {
                eprintln!("harness problem: {}", v.msg);
                return 3;
            }
            emit_violation(&v, "overflow", seed, &format!("entry={}", entry), &[]);
            nviol += 1;
        }
    }
    for entry in 0..overflow::RACE_ENTRIES.len() {
        if let Err(v) = overflow::race_parent(entry, &mut st) {
            if v.oracle == "harness" {
                eprintln!("harness problem: {}", v.msg);
                return 3;
            }
            emit_violation(&v, "overflow", seed, &format!("race entry={}", entry), &[]);
            nviol += 1;
        }
    }
    println!(
        "@@{{\"t\":\"stats\",\"engine\":\"overflow\",\"counts\":{},\"sets\":{{\"overflow_cases\":{}}},\"hooked\":{},\"sample\":{}}}",
        st.counts.json(),
        jset(&st.cases),
        cfg!(triomphe_verif),
        jlist(&st.sample)
    );
    if nviol > 0 {
        1
    } else {
        0
    }
}

#[cfg(feature = "full")]
fn engine_serde(args: &Args) -> i32 {
    let seed = args.u64("seed", 1);
    let n = args.u64("n", 20) as usize;
    let mut st = tv::serde_eng::SdStats::new();
    let viols = tv::serde_eng::run(seed, n, &args.str("part", "all"), &mut st);
    for v in &viols {
        if v.oracle == "harness" {
            eprintln!("harness problem: {}", v.msg);
            return 3;
        }
        emit_violation(v, "serde", seed, "", &[]);
    }
    println!(
        "@@{{\"t\":\"stats\",\"engine\":\"serde\",\"counts\":{},\"sets\":{{\"serde_cases\":{}}},\"shadow\":{},\"sample\":{}}}",
        st.counts.json(),
        jset(&st.cases),
        shadow::active(),
        jlist(&st.sample)
    );
    if viols.is_empty() {
        0
    } else {
        1
    }
}

fn engine_slices(args: &Args) -> i32 {
    let seed = args.u64("seed", 1);
    let n = args.u64("n", 100);
    let ops = args.u64("ops", 200) as usize;
    let first = args.u64("first", 0);
    let light = args.has("light");
    let mut st = hist::Stats::new();
    let mut nviol = 0;
    let shapes = ["T8", "T32", "TB", "T1", "Z", "T64"];
    for k in first..first + n {
        let hseed = seed.wrapping_mul(0x1000_0000).wrapping_add(k);
        let shape = shapes[(k % shapes.len() as u64) as usize];
        let r = match shape {
            "T8" => tv::slices::run_one::<tk::T8>(hseed, ops, light, &mut st),
            "T32" => tv::slices::run_one::<tk::T32>(hseed, ops, light, &mut st),
            "TB" => tv::slices::run_one::<tk::TB>(hseed, ops, light, &mut st),
            "T1" => tv::slices::run_one::<tk::T1>(hseed, ops, light, &mut st),
            "Z" => tv::slices::run_one::<tk::Z>(hseed, ops, light, &mut st),
            _ => tv::slices::run_one::<tk::T64>(hseed, ops, light, &mut st),
        };
        st.counts.bump(&format!("slices.shape.{}", shape));
        let r = match r {
            Ok(()) if k % 3 == 0 => tv::slices::run_str(hseed, ops / 2, &mut st),
            other => other,
        };
        if let Err((vs, trace)) = r {
            for v in &vs {
                emit_violation(v, "slices", seed, &format!("k={} shape={} ops={}", k, shape, ops), &trace);
            }
            nviol += 1;
            if nviol >= 5 {
                break;
            }
        }
    }
    println!(
        "@@{{\"t\":\"stats\",\"engine\":\"slices\",\"counts\":{},\"shadow\":{},\"checked_frees\":{},\"overflow\":{}}}",
        st.counts.json(),
        shadow::active(),
        shadow::checked_frees(),
        shadow::overflowed()
    );
    if nviol > 0 {
        1
    } else {
        0
    }
}
