//! tv: one binary, one sub-command per engine.
//! Output protocol: lines starting with "@@" are JSON records for the driver (/verif/check).
use tv::util::*;
use tv::{conc, hist, shadow, thin, tk};


fn main() {
    let args = Args::parse();
    quiet_panics();
    // the shadow allocator is the allocator oracle only in plain native builds
    let want_shadow = args.u64("shadow", 1) == 1 && !cfg!(miri);
    shadow::enable(want_shadow);
    let code = match args.engine.as_str() {
        "noop" => 0,
        "hist" => engine_hist(&args),
        "thin" => engine_thin(&args),
        "conc" => engine_conc(&args),
        other => {
            eprintln!("unknown engine {:?}", other);
            2
        }
    };
    std::process::exit(code);
}

fn engine_hist(args: &Args) -> i32 {
    let seed = args.u64("seed", 1);
    let n = args.u64("n", 100);
    let ops = args.u64("ops", 200) as usize;
    let first = args.u64("first", 0);
    let light = args.has("light");
    let mut st = hist::Stats::new();
    let mut nviol = 0;
    let shapes = ["T8", "T32", "TB", "T1", "Z", "T64", "Z16"];
    for k in first..first + n {
        let hseed = seed.wrapping_mul(0x1000_0000).wrapping_add(k);
        let shape = shapes[(k % shapes.len() as u64) as usize];
        let r = match shape {
            "T8" => hist::run_one::<tk::T8>(hseed, ops, light, &mut st),
            "T32" => hist::run_one::<tk::T32>(hseed, ops, light, &mut st),
            "TB" => hist::run_one::<tk::TB>(hseed, ops, light, &mut st),
            "T1" => hist::run_one::<tk::T1>(hseed, ops, light, &mut st),
            "Z" => hist::run_one::<tk::Z>(hseed, ops, light, &mut st),
            "T64" => hist::run_one::<tk::T64>(hseed, ops, light, &mut st),
            _ => hist::run_one::<tk::Z16>(hseed, ops, light, &mut st),
        };
        st.counts.bump(&format!("shape.{}", shape));
        if let Err((vs, trace)) = r {
            for v in &vs {
                emit_violation(v, "hist", seed, &format!("k={} shape={} ops={}", k, shape, ops), &trace);
            }
            nviol += 1;
            if nviol >= 5 {
                break;
            }
        }
    }
    println!(
        "@@{{\"t\":\"stats\",\"engine\":\"hist\",\"counts\":{},\"sets\":{{\"sigs\":{},\"nontrivial_sigs\":{},\"ctx_sigs\":{}}},\"shadow\":{},\"checked_frees\":{},\"overflow\":{},\"sample\":{}}}",
        st.counts.json(),
        jset(&st.sigs),
        jset(&st.nontrivial_sigs),
        jset(&st.ctx_sigs),
        shadow::active(),
        shadow::checked_frees(),
        shadow::overflowed(),
        jlist(&st.sample)
    );
    if nviol > 0 {
        1
    } else {
        0
    }
}

fn engine_thin(args: &Args) -> i32 {
    let seed = args.u64("seed", 1);
    let n = args.u64("n", 100);
    let ops = args.u64("ops", 200) as usize;
    let first = args.u64("first", 0);
    let light = args.has("light");
    let mut st = hist::Stats::new();
    let mut nviol = 0;
    let shapes = ["T8/T8", "Z/T8", "T32/T1", "T1/T32", "TB/TB", "T64/T8", "T8/T64", "Z16/T1"];
    for k in first..first + n {
        let hseed = seed.wrapping_mul(0x1000_0000).wrapping_add(k);
        let shape = shapes[(k % shapes.len() as u64) as usize];
        let r = match shape {
            "T8/T8" => thin::run_one::<tk::T8, tk::T8>(hseed, ops, light, &mut st),
            "Z/T8" => thin::run_one::<tk::Z, tk::T8>(hseed, ops, light, &mut st),
            "T32/T1" => thin::run_one::<tk::T32, tk::T1>(hseed, ops, light, &mut st),
            "T1/T32" => thin::run_one::<tk::T1, tk::T32>(hseed, ops, light, &mut st),
            "TB/TB" => thin::run_one::<tk::TB, tk::TB>(hseed, ops, light, &mut st),
            "T64/T8" => thin::run_one::<tk::T64, tk::T8>(hseed, ops, light, &mut st),
            "T8/T64" => thin::run_one::<tk::T8, tk::T64>(hseed, ops, light, &mut st),
            _ => thin::run_one::<tk::Z16, tk::T1>(hseed, ops, light, &mut st),
        };
        st.counts.bump(&format!("thin.shape.{}", shape));
        if let Err((vs, trace)) = r {
            for v in &vs {
                emit_violation(v, "thin", seed, &format!("k={} shape={} ops={}", k, shape, ops), &trace);
            }
            nviol += 1;
            if nviol >= 5 {
                break;
            }
        }
    }
    println!(
        "@@{{\"t\":\"stats\",\"engine\":\"thin\",\"counts\":{},\"shadow\":{},\"checked_frees\":{},\"overflow\":{},\"sample\":{}}}",
        st.counts.json(),
        shadow::active(),
        shadow::checked_frees(),
        shadow::overflowed(),
        jlist(&st.sample)
    );
    if nviol > 0 {
        1
    } else {
        0
    }
}

fn engine_conc(args: &Args) -> i32 {
    let seed = args.u64("seed", 1);
    let n = args.u64("n", 100);
    let first = args.u64("first", 0);
    let len = args.u64("len", 8) as usize;
    let delay = args.u64("delay", 1) as u8;
    let scen = args.str("scen", "all");
    let hooked = conc::install_hook(delay, seed);
    let mut st = conc::CStats::new();
    let mut nviol = 0;
    for k in first..first + n {
        let cseed = seed.wrapping_mul(0x1000_0000).wrapping_add(k).wrapping_mul(0x9E37_79B9_7F4A_7C15) >> 8;
        let which = if scen == "all" { ["clonedrop", "uniqpoll", "cow", "unwraprace"][(k % 4) as usize].to_string() } else { scen.clone() };
        let nthreads = 2 + ((k / 4) % 3) as usize;
        let r = match which.as_str() {
            "clonedrop" => match (k / 4) % 3 {
                0 => conc::clonedrop(cseed, &conc::make_w1, nthreads, len, &mut st),
                1 => conc::clonedrop(cseed, &conc::make_w2, nthreads, len, &mut st),
                _ => conc::clonedrop(cseed, &conc::make_w2_fat, nthreads, len, &mut st),
            },
            "uniqpoll" => conc::uniqpoll(cseed, if scen == "all" { (k / 4) as usize } else { k as usize }, 1 + ((k / 32) % 2) as usize, &mut st),
            "cow" => conc::cow(cseed, if scen == "all" { (k / 4) as usize } else { k as usize }, 1 + ((k / 12) % 2) as usize, &mut st),
            _ => conc::unwraprace(cseed, 2 + ((k / 4) % 2) as usize, &mut st),
        };
        st.counts.bump("conc.executions");
        if let Err((v, trace)) = r {
            if v.oracle == "harness" {
                eprintln!("harness problem: {}", v.msg);
                return 3;
            }
            emit_violation(&v, "conc", seed, &format!("k={} scen={} threads={} len={} delay={}", k, which, nthreads, len, delay), &trace);
            nviol += 1;
            if nviol >= 3 {
                break;
            }
        }
    }
    println!(
        "@@{{\"t\":\"stats\",\"engine\":\"conc\",\"counts\":{},\"sets\":{{\"interleavings\":{},\"nontrivial_interleavings\":{}}},\"hooked\":{},\"sample\":{}}}",
        st.counts.json(),
        jset(&st.ileave),
        jset(&st.nontrivial),
        hooked,
        jlist(&st.sample)
    );
    if nviol > 0 {
        1
    } else {
        0
    }
}
