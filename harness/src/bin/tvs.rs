//! tvs: the shapes engine (type-matrix heavy; kept in its own binary to keep the others quick to build).
use tv::util::*;
use tv::{shadow, shapes, tk};

fn main() {
    let args = Args::parse();
    quiet_panics();
    let want_shadow = args.u64("shadow", 1) == 1 && !cfg!(miri);
    shadow::set_fill(args.u64("fill", 0) as u8);
    shadow::enable(want_shadow);
    if want_shadow {
        install_crash_reporter();
    }
    let code = match args.engine.as_str() {
        "noop" => 0,
        "shapes" => engine_shapes(&args),
        other => {
            eprintln!("unknown engine {:?}", other);
            2
        }
    };
    std::process::exit(code);
}

macro_rules! b_elems {
    ($h:ty, $ti:expr, $len:expr, $c:expr, $r:expr, $st:expr) => {
        match $ti {
            0 => shapes::case_b::<$h, u8>($len, $c, $r, $st),
            1 => shapes::case_b::<$h, u16>($len, $c, $r, $st),
            2 => shapes::case_b::<$h, [u8; 3]>($len, $c, $r, $st),
            3 => shapes::case_b::<$h, u64>($len, $c, $r, $st),
            4 => shapes::case_b::<$h, [u8; 9]>($len, $c, $r, $st),
            5 => shapes::case_b::<$h, shapes::A16>($len, $c, $r, $st),
            6 => shapes::case_b::<$h, shapes::A32>($len, $c, $r, $st),
            7 => shapes::case_b::<$h, ()>($len, $c, $r, $st),
            _ => shapes::case_b::<$h, tk::Z>($len, $c, $r, $st),
        }
    };
}
const NB_H: usize = 9;
const NB_T: usize = 9;
fn dispatch_b(hi: usize, ti: usize, len: usize, c: usize, r: usize, st: &mut shapes::SStats) -> R {
    match hi {
        0 => b_elems!((), ti, len, c, r, st),
        1 => b_elems!(u8, ti, len, c, r, st),
        2 => b_elems!([u8; 3], ti, len, c, r, st),
        3 => b_elems!(u64, ti, len, c, r, st),
        4 => b_elems!((u64, u8), ti, len, c, r, st),
        5 => b_elems!([u8; 33], ti, len, c, r, st),
        6 => b_elems!(shapes::A16, ti, len, c, r, st),
        7 => b_elems!(shapes::A64, ti, len, c, r, st),
        _ => b_elems!(shapes::ZA16, ti, len, c, r, st),
    }
}
fn dispatch_c(ti: usize, len: usize, c: usize, r: usize, st: &mut shapes::SStats) -> R {
    match ti {
        0 => shapes::case_c::<u8>(len, c, r, st),
        1 => shapes::case_c::<u16>(len, c, r, st),
        2 => shapes::case_c::<[u8; 3]>(len, c, r, st),
        3 => shapes::case_c::<u64>(len, c, r, st),
        4 => shapes::case_c::<[u8; 9]>(len, c, r, st),
        5 => shapes::case_c::<shapes::A16>(len, c, r, st),
        6 => shapes::case_c::<shapes::A32>(len, c, r, st),
        7 => shapes::case_c::<()>(len, c, r, st),
        8 => shapes::case_c::<tk::Z>(len, c, r, st),
        9 => shapes::case_c::<shapes::A64>(len, c, r, st),
        _ => shapes::case_c::<[u8; 33]>(len, c, r, st),
    }
}
const NC_T: usize = 11;
macro_rules! sized_list {
    ($mac:ident, $i:expr, $($args:tt)*) => {
        match $i {
            0 => $mac!(u8, $($args)*),
            1 => $mac!(u16, $($args)*),
            2 => $mac!([u8; 3], $($args)*),
            3 => $mac!(u64, $($args)*),
            4 => $mac!([u8; 9], $($args)*),
            5 => $mac!((u64, u8), $($args)*),
            6 => $mac!([u8; 33], $($args)*),
            7 => $mac!(shapes::A16, $($args)*),
            8 => $mac!(shapes::A32, $($args)*),
            9 => $mac!(shapes::A64, $($args)*),
            10 => $mac!((), $($args)*),
            11 => $mac!(shapes::ZA16, $($args)*),
            _ => $mac!(tk::Z, $($args)*),
        }
    };
}
const NS: usize = 13;
macro_rules! call_a {
    ($t:ty, $c:expr, $r:expr, $st:expr) => {
        shapes::case_a::<$t>($c, $r, $st)
    };
}
macro_rules! call_u_inner {
    ($b:ty, $a:ty, $v:expr, $s:expr, $st:expr) => {
        shapes::case_union::<$a, $b>($v, $s, $st)
    };
}
macro_rules! call_u {
    ($a:ty, $bi:expr, $v:expr, $s:expr, $st:expr) => {
        sized_list!(call_u_inner, $bi, $a, $v, $s, $st)
    };
}

/// A panic escaping a case (the cases catch the panics they provoke themselves) is a violation of
/// the family's properties, not a harness error.
fn guarded(props: &'static str, f: impl FnOnce() -> R) -> R {
    match catch(f) {
        Ok(r) => r,
        Err(msg) => viol(props, "panic", format!("the library panicked: {}", msg)),
    }
}

fn engine_shapes(args: &Args) -> i32 {
    let seed = args.u64("seed", 1);
    let fam = args.str("fam", "all");
    let frac = args.u64("frac", 1).max(1); // run 1 case in `frac` (seeded choice)
    let shard = args.u64("shard", 0);
    let nshards = args.u64("nshards", 1).max(1);
    let maxlen = args.u64("maxlen", 255) as usize;
    let mut st = shapes::SStats::new();
    let mut nviol = 0;
    let mut idx: u64 = 0;
    let mut total: u64 = 0;
    let mut take = |idx: &mut u64| -> bool {
        *idx += 1;
        let h = (*idx)
            .wrapping_mul(0x9E37_79B9_7F4A_7C15)
            .wrapping_add(seed.wrapping_mul(0xD1B5_4A32_D192_ED03));
        let h = h ^ (h >> 29);
        (*idx % nshards == shard) && (frac == 1 || (h >> 7) % frac == 0)
    };
    let mut report = |r: R, st: &mut shapes::SStats, nviol: &mut i32, case: String| {
        if let Err(v) = r {
            if *nviol < 5 {
                emit_violation(&v, "shapes", seed, &case, &[]);
            }
            *nviol += 1;
            let _ = st;
        }
    };
    if fam == "all" || fam == "b" {
        for hi in 0..NB_H {
            for ti in 0..NB_T {
                for &len in shapes::LENS.iter().filter(|l| **l <= maxlen) {
                    for c in 0..shapes::B_CTORS {
                        for r in 0..shapes::B_RELS {
                            if !take(&mut idx) {
                                continue;
                            }
                            total += 1;
                            let res = guarded("C05,C06", || dispatch_b(hi, ti, len, c, r, &mut st));
                            report(
                                res,
                                &mut st,
                                &mut nviol,
                                format!("b hi={} ti={} len={} c={} r={}", hi, ti, len, c, r),
                            );
                        }
                    }
                }
            }
        }
    }
    if fam == "all" || fam == "c" {
        for ti in 0..NC_T {
            for &len in shapes::LENS.iter().filter(|l| **l <= maxlen) {
                for c in 0..shapes::C_CTORS {
                    for r in 0..shapes::C_RELS {
                        if !take(&mut idx) {
                            continue;
                        }
                        total += 1;
                        let res = guarded("C05,C06", || dispatch_c(ti, len, c, r, &mut st));
                        report(
                            res,
                            &mut st,
                            &mut nviol,
                            format!("c ti={} len={} c={} r={}", ti, len, c, r),
                        );
                    }
                }
            }
        }
        for &len in &[0usize, 1, 2, 7, 8, 9, 33, 255, 1000] {
            for c in 0..3 {
                if !take(&mut idx) {
                    continue;
                }
                total += 1;
                let res = guarded("C05,C06", || shapes::case_str(len, c, &mut st));
                report(res, &mut st, &mut nviol, format!("str len={} c={}", len, c));
            }
        }
    }
    if fam == "all" || fam == "a" {
        for si in 0..NS {
            for c in 0..shapes::A_CTORS {
                for r in 0..shapes::A_RELS {
                    if !take(&mut idx) {
                        continue;
                    }
                    total += 1;
                    let res = guarded("C05,C11", || sized_list!(call_a, si, c, r, &mut st));
                    report(
                        res,
                        &mut st,
                        &mut nviol,
                        format!("a si={} c={} r={}", si, c, r),
                    );
                }
            }
        }
    }
    if fam == "all" || fam == "u" {
        let scripts = args.u64("scripts", 2);
        for ai in 0..NS {
            for bi in 0..NS {
                for v in 0..2 {
                    for s in 0..scripts {
                        if !take(&mut idx) {
                            continue;
                        }
                        total += 1;
                        let script = seed
                            .wrapping_mul(1000)
                            .wrapping_add(s)
                            .wrapping_add((ai * NS + bi) as u64 * 7919);
                        let res = guarded("C12", || sized_list!(call_u, ai, bi, v, script, &mut st));
                        report(
                            res,
                            &mut st,
                            &mut nviol,
                            format!("u ai={} bi={} v={} script={}", ai, bi, v, script),
                        );
                    }
                }
            }
        }
    }
    if (fam == "all" || fam == "o") && shard == 0 {
        total += 1;
        let res = guarded("C05", || shapes::overflow_cases(&mut st));
        report(res, &mut st, &mut nviol, "overflow".to_string());
    }
    st.counts.add("shapes.cases", total);
    println!(
        "@@{{\"t\":\"stats\",\"engine\":\"shapes\",\"counts\":{},\"sets\":{{\"shape_cases\":{}}},\"shadow\":{},\"checked_frees\":{},\"overflow\":{},\"sample\":{}}}",
        st.counts.json(),
        jset(&st.cases),
        shadow::active(),
        shadow::checked_frees(),
        shadow::overflowed(),
        jlist(&st.sample)
    );
    if nviol > 0 {
        1
    } else {
        0
    }
}
