//! hist engine, world W2: histories over ThinArc and the fat / protected Arcs it converts to.
//!
//! Oracles: thin [C10] recorded length == slice length == model; same addresses/values through
//! the thin Deref and the fat Arc; thin<->fat keeps allocation and count; into_thin with a wrong
//! recorded length panics and releases; with_arc_mut replacement (+panic) semantics.
//! Plus the live [C01], count [C04], uniq [C03] oracles of W1 for these handle kinds.

use crate::ensure;
use crate::shadow;
use crate::tk::{self, Pay};
use crate::util::*;
use std::ffi::c_void;
use std::mem::ManuallyDrop;
use triomphe::{
    Arc, HeaderSlice, HeaderSliceWithLengthProtected, HeaderWithLength, ThinArc, UniqueArc,
};

#[cfg(feature = "full")]
use arc_swap::ArcSwapAny;

pub type HS<A, B> = HeaderSlice<HeaderWithLength<A>, [B]>;
pub type Fat<A, B> = Arc<HS<A, B>>;
pub type Prot<A, B> = Arc<HeaderSliceWithLengthProtected<A, B>>;

pub enum H2<A: Pay, B: Pay> {
    Thin(ThinArc<A, B>),
    Fat(Fat<A, B>),
    Prot(Prot<A, B>),
    Raw(*const c_void),
    Uniq(UniqueArc<HS<A, B>>),
    #[cfg(feature = "full")]
    Swap(ArcSwapAny<ThinArc<A, B>>),
}
unsafe impl<A: Pay + Send + Sync, B: Pay + Send + Sync> Send for H2<A, B> {}

impl<A: Pay, B: Pay> H2<A, B> {
    pub fn kind(&self) -> &'static str {
        match self {
            H2::Thin(_) => "thin",
            H2::Fat(_) => "fat",
            H2::Prot(_) => "prot",
            H2::Raw(_) => "traw",
            H2::Uniq(_) => "funiq",
            #[cfg(feature = "full")]
            H2::Swap(_) => "tswap",
        }
    }
}

pub struct View2 {
    pub hid: u32,
    pub htag: u64,
    pub haddr: usize,
    pub rec_len: usize,
    pub elems: Vec<(u32, u64)>,
    pub eaddr: usize,
    pub heap: Option<usize>,
    pub counts: Vec<(&'static str, usize)>,
}

fn read_hs<A: Pay, B: Pay>(
    x: &HS<A, B>,
    via: &str,
) -> R<(u32, u64, usize, usize, Vec<(u32, u64)>, usize)> {
    if let Err(e) = x.header.header.check() {
        return viol("C01", "live", format!("header read through {}: {}", via, e));
    }
    // the engine never builds slices longer than 17: anything else is a wrong length, reported
    // before it turns into a wild read
    if x.slice.len() > 64 || (x.header.length != x.slice.len() && via != "fat") {
        return viol(
            "C10",
            "thin",
            format!("{} exposes a slice of {} elements with recorded length {}", via, x.slice.len(), x.header.length),
        );
    }
    let mut v = Vec::with_capacity(x.slice.len());
    for (k, e) in x.slice.iter().enumerate() {
        if let Err(m) = e.check() {
            return viol(
                "C01,C10",
                "live",
                format!("element {} read through {}: {}", k, via, m),
            );
        }
        v.push((e.id(), e.tag()));
    }
    Ok((
        x.header.header.id(),
        x.header.header.tag(),
        &x.header.header as *const A as usize,
        x.header.length,
        v,
        x.slice.as_ptr() as usize,
    ))
}

pub fn view2<A: Pay, B: Pay>(h: &H2<A, B>) -> R<View2> {
    let mut counts = Vec::new();
    let (hid, htag, haddr, rec_len, elems, eaddr, heap);
    match h {
        H2::Thin(t) => {
            let r = read_hs(&**t, "thin")?;
            // the same through the fat Arc lent by with_arc
            let r2 = t.with_arc(|f| read_hs(&**f, "thin.with_arc"))?;
            ensure!(
                r == r2,
                "C10",
                "thin",
                "ThinArc Deref and the fat Arc in with_arc disagree: {:?} vs {:?}",
                (r.0, r.1, r.2, r.3, r.5),
                (r2.0, r2.1, r2.2, r2.3, r2.5)
            );
            ensure!(
                r.3 == r.4.len(),
                "C10",
                "thin",
                "ThinArc: recorded length {} but slice length {}",
                r.3,
                r.4.len()
            );
            (hid, htag, haddr, rec_len, elems, eaddr) = r;
            heap = Some(t.heap_ptr() as usize);
            ensure!(
                t.ptr() as usize == t.heap_ptr() as usize
                    && t.as_ptr() as usize == t.heap_ptr() as usize,
                "C11",
                "ptr",
                "ThinArc ptr/as_ptr/heap_ptr disagree"
            );
            counts.push(("ThinArc::strong_count", ThinArc::strong_count(t)));
            counts.push(("ThinArc::with_arc", t.with_arc(|f| Arc::count(f))));
            counts.push((
                "uniq:ThinArc::with_arc(is_unique)",
                t.with_arc(|f| f.is_unique()) as usize,
            ));
            let fh = t.with_arc(|f| f.heap_ptr() as usize);
            ensure!(
                Some(fh) == heap,
                "C10,C11",
                "thin",
                "fat Arc lent by with_arc has another heap_ptr"
            );
        }
        H2::Fat(f) => {
            (hid, htag, haddr, rec_len, elems, eaddr) = read_hs(&**f, "fat")?;
            heap = Some(f.heap_ptr() as usize);
            counts.push(("fat:Arc::count", Arc::count(f)));
            counts.push(("fat:Arc::strong_count", Arc::strong_count(f)));
            counts.push(("uniq:fat Arc::is_unique", f.is_unique() as usize));
        }
        H2::Prot(p) => {
            if let Err(e) = p.header().check() {
                return viol("C01", "live", format!("header read through prot: {}", e));
            }
            let mut v = Vec::new();
            for e in p.slice() {
                if let Err(m) = e.check() {
                    return viol(
                        "C01,C10",
                        "live",
                        format!("element read through prot: {}", m),
                    );
                }
                v.push((e.id(), e.tag()));
            }
            hid = p.header().id();
            htag = p.header().tag();
            haddr = p.header() as *const A as usize;
            rec_len = p.length();
            eaddr = p.slice().as_ptr() as usize;
            ensure!(
                rec_len == v.len(),
                "C10",
                "thin",
                "protected Arc: recorded length {} but slice length {}",
                rec_len,
                v.len()
            );
            elems = v;
            heap = Some(p.heap_ptr() as usize);
            counts.push(("prot:Arc::count", Arc::count(p)));
            counts.push(("uniq:protected Arc::is_unique", p.is_unique() as usize));
        }
        H2::Raw(p) => {
            let t = ManuallyDrop::new(unsafe { ThinArc::<A, B>::from_raw(*p) });
            (hid, htag, haddr, rec_len, elems, eaddr) = read_hs(&**t, "raw")?;
            heap = Some(*p as usize);
            counts.push(("raw:ThinArc::strong_count", ThinArc::strong_count(&t)));
        }
        H2::Uniq(u) => {
            (hid, htag, haddr, rec_len, elems, eaddr) = read_hs(&**u, "uniq")?;
            heap = None;
        }
        #[cfg(feature = "full")]
        H2::Swap(c) => {
            let g = shadow::untracked(|| c.load_full());
            (hid, htag, haddr, rec_len, elems, eaddr) = read_hs(&*g, "swap")?;
            heap = Some(g.heap_ptr() as usize);
            counts.push(("tswap:load_full-1", ThinArc::strong_count(&g) - 1));
            shadow::untracked(|| drop(g));
        }
    }
    Ok(View2 {
        hid,
        htag,
        haddr,
        rec_len,
        elems,
        eaddr,
        heap,
        counts,
    })
}

pub fn dup2<A: Pay, B: Pay>(src: &H2<A, B>, r: usize) -> Option<(H2<A, B>, &'static str)> {
    Some(match src {
        H2::Thin(t) => match r % 4 {
            0 | 1 => (H2::Thin(t.clone()), "thin.clone"),
            2 => (H2::Fat(t.with_arc(|f| f.clone())), "thin.with_arc.clone"),
            _ => {
                let mut t2 = t.clone();
                let p = t2.with_arc_mut(|p| p.clone());
                drop(t2);
                (H2::Prot(p), "thin.clone.with_arc_mut.clone")
            }
        },
        H2::Fat(f) => (H2::Fat(f.clone()), "fat.clone"),
        H2::Prot(p) => (H2::Prot(p.clone()), "prot.clone"),
        H2::Raw(p) => {
            let t = ManuallyDrop::new(unsafe { ThinArc::<A, B>::from_raw(*p) });
            (H2::Thin((*t).clone()), "traw.clone")
        }
        H2::Uniq(_) => return None,
        #[cfg(feature = "full")]
        H2::Swap(c) => (
            H2::Thin(shadow::untracked(|| c.load_full())),
            "tswap.load_full",
        ),
    })
}

pub fn conv2<A: Pay, B: Pay>(h: H2<A, B>, r: usize) -> (H2<A, B>, &'static str) {
    match h {
        H2::Thin(t) => match r % 4 {
            0 => (H2::Fat(Arc::from_thin(t)), "thin->fat"),
            1 => (H2::Prot(Arc::protected_from_thin(t)), "thin->prot"),
            2 => (H2::Raw(t.into_raw()), "thin->raw"),
            _ => {
                #[cfg(feature = "full")]
                {
                    (
                        H2::Swap(shadow::untracked(|| ArcSwapAny::new(t))),
                        "thin->swap",
                    )
                }
                #[cfg(not(feature = "full"))]
                {
                    (H2::Fat(Arc::from_thin(t)), "thin->fat")
                }
            }
        },
        H2::Fat(f) => (H2::Thin(Arc::into_thin(f)), "fat->thin"),
        H2::Prot(p) => (H2::Thin(Arc::protected_into_thin(p)), "prot->thin"),
        H2::Raw(p) => (H2::Thin(unsafe { ThinArc::from_raw(p) }), "raw->thin"),
        H2::Uniq(u) => (H2::Fat(u.shareable()), "funiq->fat"),
        #[cfg(feature = "full")]
        H2::Swap(c) => match r % 2 {
            0 => (
                H2::Thin(shadow::untracked(|| c.into_inner())),
                "tswap->thin",
            ),
            _ => {
                let c = shadow::untracked(|| {
                    let cur = c.load_full();
                    c.store(cur.clone());
                    drop(c.swap(cur));
                    c
                });
                (H2::Swap(c), "tswap.store+swap")
            }
        },
    }
}

pub fn drop2<A: Pay, B: Pay>(h: H2<A, B>) {
    match h {
        H2::Raw(p) => drop(unsafe { ThinArc::<A, B>::from_raw(p) }),
        #[cfg(feature = "full")]
        H2::Swap(c) => shadow::untracked(|| drop(c)),
        other => drop(other),
    }
}

struct Slot<A: Pay, B: Pay> {
    h: H2<A, B>,
    a: usize,
}

struct AllocM {
    hid: u32,
    htag: u64,
    elems: Vec<(u32, u64)>,
    block: usize,
    haddr: usize,
    eaddr: usize,
    live: bool,
}

pub use crate::hist::Stats;

// count traffic observed through the cfg(triomphe_verif) hook (read-modify-write operations only)
static RMW_EVENTS: std::sync::atomic::AtomicUsize = std::sync::atomic::AtomicUsize::new(0);
#[cfg(triomphe_verif)]
fn rmw_hook(ev: &triomphe::verif_hooks::Event) {
    use triomphe::verif_hooks::Op;
    if ev.done && !matches!(ev.op, Op::Load) {
        RMW_EVENTS.fetch_add(1, std::sync::atomic::Ordering::Relaxed);
    }
}
/// Run `f` and return how many count read-modify-writes it performed (None without the hook).
fn count_traffic<T>(f: impl FnOnce() -> T) -> (T, Option<usize>) {
    #[cfg(triomphe_verif)]
    {
        let before = RMW_EVENTS.load(std::sync::atomic::Ordering::Relaxed);
        triomphe::verif_hooks::set_hook(Some(rmw_hook));
        let r = f();
        triomphe::verif_hooks::set_hook(None);
        (r, Some(RMW_EVENTS.load(std::sync::atomic::Ordering::Relaxed) - before))
    }
    #[cfg(not(triomphe_verif))]
    {
        let _ = &RMW_EVENTS;
        (f(), None)
    }
}

struct W<'s, A: Pay, B: Pay> {
    slots: Vec<Option<Slot<A, B>>>,
    allocs: Vec<AllocM>,
    rng: Rng,
    trace: Vec<String>,
    st: &'s mut Stats,
    next_tag: u64,
    light: bool,
    last_a: usize,
    z0: i64,
    soft: Vec<Viol>,
}

/// An ExactSizeIterator handing out freshly made tracked elements.
pub struct Mk<B: Pay> {
    pub left: usize,
    pub tag0: u64,
    pub _p: std::marker::PhantomData<B>,
}
impl<B: Pay> Iterator for Mk<B> {
    type Item = B;
    fn next(&mut self) -> Option<B> {
        if self.left == 0 {
            None
        } else {
            self.left -= 1;
            self.tag0 = (self.tag0 + 1) % 200;
            Some(B::make(self.tag0 + 1))
        }
    }
    fn size_hint(&self) -> (usize, Option<usize>) {
        (self.left, Some(self.left))
    }
}
impl<B: Pay> ExactSizeIterator for Mk<B> {}

fn mk<B: Pay>(n: usize, tag0: u64) -> Mk<B> {
    Mk {
        left: n,
        tag0,
        _p: std::marker::PhantomData,
    }
}

const NSLOTS: usize = 8;

impl<'s, A: Pay + Send + Sync, B: Pay + Send + Sync> W<'s, A, B> {
    fn owners(&self, a: usize) -> usize {
        self.slots.iter().flatten().filter(|s| s.a == a).count()
    }
    fn used(&self) -> Vec<usize> {
        (0..self.slots.len())
            .filter(|i| self.slots[*i].is_some())
            .collect()
    }
    fn free(&mut self) -> Option<usize> {
        let f: Vec<usize> = (0..self.slots.len())
            .filter(|i| self.slots[*i].is_none())
            .collect();
        if f.is_empty() {
            None
        } else {
            Some(f[self.rng.below(f.len())])
        }
    }
    fn tag(&mut self) -> u64 {
        self.next_tag = (self.next_tag + 7) % 200;
        self.next_tag + 1
    }
    fn len(&mut self) -> usize {
        match self.rng.below(10) {
            0 | 1 => 0,
            2 | 3 => 1,
            4 => 2,
            5 => 3,
            6 => 4,
            7 => 7,
            8 => 8,
            _ => 17,
        }
    }

    fn make_thin(&mut self) -> (ThinArc<A, B>, &'static str) {
        let n = self.len();
        let ht = self.tag();
        let t0 = self.tag();
        let r = self.rng.below(4);
        shadow::tracked(|| match r {
            0 => (
                ThinArc::from_header_and_iter(A::make(ht), mk::<B>(n, t0)),
                "ThinArc::from_header_and_iter",
            ),
            1 => (
                Arc::into_thin(Arc::from_header_and_iter(
                    HeaderWithLength::new(A::make(ht), n),
                    mk::<B>(n, t0),
                )),
                "Arc::from_header_and_iter+into_thin",
            ),
            2 => {
                let v: Vec<B> = mk::<B>(n, t0).collect();
                (
                    Arc::into_thin(Arc::from_header_and_vec(
                        HeaderWithLength::new(A::make(ht), n),
                        v,
                    )),
                    "Arc::from_header_and_vec+into_thin",
                )
            }
            _ => {
                let mut u: UniqueArc<HeaderSlice<HeaderWithLength<A>, [std::mem::MaybeUninit<B>]>> =
                    UniqueArc::from_header_and_uninit_slice(
                        HeaderWithLength::new(A::make(ht), n),
                        n,
                    );
                for (slot, e) in u.slice.iter_mut().zip(mk::<B>(n, t0)) {
                    slot.write(e);
                }
                let u = unsafe { u.assume_init_slice_with_header() };
                (
                    Arc::into_thin(u.shareable()),
                    "uninit_slice+assume_init+into_thin",
                )
            }
        })
    }

    fn adopt(&mut self, slot: usize, h: H2<A, B>, how: &str) -> R {
        let v = view2(&h)?;
        let block = v.heap.unwrap_or(0);
        if shadow::active() && block != 0 {
            ensure!(
                shadow::live_layout(block).is_some(),
                "C01,C11",
                "live",
                "heap_ptr of a new thin allocation is not a live block"
            );
        }
        self.allocs.push(AllocM {
            hid: v.hid,
            htag: v.htag,
            elems: v.elems,
            block,
            haddr: v.haddr,
            eaddr: v.eaddr,
            live: true,
        });
        let a = self.allocs.len() - 1;
        self.last_a = a;
        self.slots[slot] = Some(Slot { h, a });
        self.st.counts.bump(&format!("thin.create:{}", how));
        Ok(())
    }

    fn expect_dead(&mut self, a: usize, by: &str) -> R {
        let m = &mut self.allocs[a];
        m.live = false;
        if A::HAS_ID {
            ensure!(
                tk::state(m.hid) == tk::DEAD,
                "C01",
                "live",
                "thin header id={} not destroyed at last release ({})",
                m.hid,
                by
            );
        }
        for (id, _) in &m.elems {
            ensure!(
                tk::state(*id) == tk::DEAD,
                "C01",
                "live",
                "thin element id={} not destroyed at last release ({})",
                id,
                by
            );
        }
        if shadow::active() && m.block != 0 {
            ensure!(
                shadow::live_layout(m.block).is_none(),
                "C01",
                "live",
                "thin block {:#x} not returned at last release ({})",
                m.block,
                by
            );
        }
        self.st
            .counts
            .bump(&format!("thin.final_release_by.{}", by));
        Ok(())
    }

    fn expected_live(&self) -> i64 {
        self.allocs
            .iter()
            .filter(|m| m.live)
            .map(|m| m.elems.len() as i64 + if A::HAS_ID { 1 } else { 0 })
            .sum()
    }

    fn verify(&mut self, ctx: &str) -> R {
        set_op("C01,C10,C04|reading thin/fat handles");
        for i in 0..self.slots.len() {
            let (a, kind, v) = match &self.slots[i] {
                None => continue,
                Some(s) if self.light && s.a != self.last_a => continue,
                Some(s) => (s.a, s.h.kind(), view2(&s.h)?),
            };
            let owners = self.owners(a);
            let m = &self.allocs[a];
            ensure!(
                m.live,
                "C01",
                "live",
                "harness: slot refers to dead model alloc"
            );
            ensure!(
                v.rec_len == m.elems.len(),
                "C10",
                "thin",
                "after {}: {} handle records length {} but the allocation holds {} elements",
                ctx,
                kind,
                v.rec_len,
                m.elems.len()
            );
            ensure!(
                (v.hid, v.htag) == (m.hid, m.htag) && v.elems == m.elems,
                "C01,C10",
                "live",
                "after {}: {} handle sees header ({},{}) elems {:?}; model header ({},{}) elems {:?}",
                ctx,
                kind,
                v.hid,
                v.htag,
                v.elems,
                m.hid,
                m.htag,
                m.elems
            );
            ensure!(
                v.haddr == m.haddr && (v.eaddr == m.eaddr || m.elems.is_empty()),
                "C10,C11",
                "thin",
                "after {}: {} handle exposes header/elements at {:#x}/{:#x}, allocation has them at {:#x}/{:#x}",
                ctx,
                kind,
                v.haddr,
                v.eaddr,
                m.haddr,
                m.eaddr
            );
            if let Some(h) = v.heap {
                ensure!(
                    h == m.block,
                    "C10,C11",
                    "thin",
                    "after {}: {} handle's heap_ptr moved",
                    ctx,
                    kind
                );
            }
            for (name, c) in &v.counts {
                if let Some(api) = name.strip_prefix("uniq:") {
                    // a non-mutating uniqueness verdict, taken at every step: it must agree with the model's owner count
                    self.st.counts.bump("uniq_obs.passive");
                    ensure!(
                        (*c == 1) == (owners == 1),
                        "C03,C04",
                        "uniq",
                        "after {}: {} through a {} handle says unique={} but {} owning handles exist",
                        ctx,
                        api,
                        kind,
                        *c == 1,
                        owners
                    );
                    continue;
                }
                if self.light {
                    self.st.counts.bump("count_obs.any");
                } else {
                    self.st.counts.bump(&format!("count_obs.{}", name));
                }
                if *c != owners {
                    let msg = format!(
                        "after {}: {} through a {} handle reports {} but {} owning handles exist",
                        ctx, name, kind, c, owners
                    );
                    crate::hist::soft_push(&mut self.soft, "C04", "count", msg);
                }
            }
        }
        let expect = self.expected_live();
        ensure!(
            tk::live() == expect,
            "C01",
            "live",
            "after {}: {} tracked values alive, model expects {}",
            ctx,
            tk::live(),
            expect
        );
        if !A::HAS_ID {
            let n = self.allocs.iter().filter(|m| m.live).count() as i64;
            ensure!(
                tk::z_live() - self.z0 == n,
                "C01",
                "live",
                "after {}: {} zero-sized headers alive, model expects {}",
                ctx,
                tk::z_live() - self.z0,
                n
            );
        }
        if shadow::active() {
            for m in self.allocs.iter().filter(|m| m.live && m.block != 0) {
                ensure!(
                    shadow::live_layout(m.block).is_some(),
                    "C01",
                    "live",
                    "after {}: block of a live thin allocation was returned",
                    ctx
                );
            }
        }
        let f = tk::take_findings();
        if !f.is_empty() {
            return viol("C01", "live", format!("after {}: {}", ctx, f.join("; ")));
        }
        if let Some(x) = shadow::take_findings().first() {
            let props = if x.kind == "dealloc-layout-mismatch" {
                "C05,C01"
            } else {
                "C01"
            };
            return viol(
                props,
                "alloc",
                format!("after {}: allocator monitor: {:?}", ctx, x),
            );
        }
        Ok(())
    }

    fn step(&mut self) -> R {
        set_op("C01,C10|thin-world operation");
        let used = self.used();
        let free = self.free();
        let roll = self.rng.below(100);
        if used.is_empty() || (roll < 12 && free.is_some()) {
            let s = free.unwrap();
            let (t, how) = self.make_thin();
            self.trace.push(format!("s{} = {}", s, how));
            self.adopt(s, H2::Thin(t), how)?;
            return self.verify("create");
        }
        let i = *self.rng.pick(&used);
        let a = self.slots[i].as_ref().unwrap().a;
        self.last_a = a;
        let kind = self.slots[i].as_ref().unwrap().h.kind();
        let r = self.rng.below(16);
        if roll < 32 {
            if let Some(s) = free {
                let d = shadow::tracked(|| dup2(&self.slots[i].as_ref().unwrap().h, r));
                if let Some((h, how)) = d {
                    self.trace.push(format!("s{} = s{}.{}", s, i, how));
                    self.st.counts.bump(&format!("thin.edge:{}", how));
                    self.slots[s] = Some(Slot { h, a });
                    return self.verify(how);
                }
            }
        }
        if roll < 52 {
            let slot = self.slots[i].take().unwrap();
            let swapish = slot.h.kind() == "tswap" || (slot.h.kind() == "thin" && r % 4 == 3 && cfg!(feature = "full"));
            let ((h, how), traffic) = count_traffic(|| shadow::tracked(|| conv2(slot.h, r)));
            if let (Some(n), false) = (traffic, swapish) {
                // thin <-> fat <-> protected <-> raw are pure pointer conversions
                ensure!(
                    n == 0,
                    "C10,C04",
                    "thin",
                    "conversion {} performed {} read-modify-write operations on the reference count; it must not touch it",
                    how,
                    n
                );
            }
            self.trace.push(format!("s{} : {}", i, how));
            self.st.counts.bump(&format!("thin.edge:{}", how));
            self.slots[i] = Some(Slot { h, a });
            return self.verify(how);
        }
        if roll < 64 {
            let slot = self.slots[i].take().unwrap();
            let owners = self.owners(a) + 1;
            self.trace.push(format!("drop s{} ({})", i, kind));
            shadow::tracked(|| drop2(slot.h));
            if owners == 1 {
                self.expect_dead(a, kind)?;
            }
            return self.verify("drop");
        }
        if roll < 76 {
            return self.op_with_arc_mut(i, a);
        }
        if roll < 86 {
            return self.op_unique(i, a, kind);
        }
        if roll < 94 {
            return self.op_compare(i);
        }
        self.op_bad_into_thin()
    }

    /// with_arc_mut callbacks that mutate, replace, replace-then-panic or just panic.
    fn op_with_arc_mut(&mut self, i: usize, a: usize) -> R {
        // need a thin handle in slot i
        let mut slot = self.slots[i].take().unwrap();
        let owners = self.owners(a) + 1;
        let t = match &mut slot.h {
            H2::Thin(t) => t,
            _ => {
                self.slots[i] = Some(slot);
                return self.verify("noop");
            }
        };
        let r = self.rng.below(6);
        let newtag = self.tag();
        match r {
            0 => {
                // mutate through get_mut iff unique
                let g = shadow::tracked(|| {
                    t.with_arc_mut(|p| match Arc::get_mut(p) {
                        Some(m) => {
                            m.header_mut().set_tag(newtag);
                            if let Some(e) = m.slice_mut().first_mut() {
                                e.set_tag(newtag);
                            }
                            true
                        }
                        None => false,
                    })
                });
                self.trace
                    .push(format!("s{}.with_arc_mut(get_mut) -> {}", i, g));
                self.st.counts.bump(if g {
                    "uniq.thin.with_arc_mut.get_mut.grant"
                } else {
                    "uniq.thin.with_arc_mut.get_mut.decline"
                });
                ensure!(
                    g == (owners == 1),
                    "C03",
                    "uniq",
                    "get_mut inside ThinArc::with_arc_mut granted={} with {} owners",
                    g,
                    owners
                );
                if g {
                    let m = &mut self.allocs[a];
                    m.htag = if A::HAS_ID { newtag } else { 0 };
                    if let Some(e) = m.elems.first_mut() {
                        e.1 = newtag;
                    }
                }
                self.slots[i] = Some(slot);
                self.verify("with_arc_mut(get_mut)")
            }
            1 | 2 | 3 => {
                // replace the Arc by a handle to another allocation (existing or fresh); r==2: then panic
                let others: Vec<usize> = self
                    .used()
                    .into_iter()
                    .filter(|j| self.slots[*j].as_ref().unwrap().a != a)
                    .collect();
                let (repl, ra): (Prot<A, B>, Option<usize>) = if !others.is_empty()
                    && self.rng.below(2) == 0
                {
                    let j = *self.rng.pick(&others);
                    let oa = self.slots[j].as_ref().unwrap().a;
                    let src = &self.slots[j].as_ref().unwrap().h;
                    let th = shadow::tracked(|| match dup2(src, 0) {
                        Some((H2::Thin(t), _)) => Some(t),
                        Some((H2::Fat(f), _)) => Some(Arc::into_thin(f)),
                        Some((H2::Prot(p), _)) => Some(Arc::protected_into_thin(p)),
                        Some((other, _)) => {
                            drop2(other);
                            None
                        }
                        None => None,
                    });
                    match th {
                        Some(th) => (shadow::tracked(|| Arc::protected_from_thin(th)), Some(oa)),
                        None => {
                            self.slots[i] = Some(slot);
                            return self.verify("noop");
                        }
                    }
                } else {
                    let (th, _) = self.make_thin();
                    (shadow::tracked(|| Arc::protected_from_thin(th)), None)
                };
                let repl_heap = repl.heap_ptr() as usize;
                let panics = r == 2;
                let res = shadow::tracked(|| {
                    catch(|| {
                        t.with_arc_mut(|p| {
                            *p = repl;
                            if panics {
                                panic!("callback panics after replacing");
                            }
                        })
                    })
                });
                self.trace.push(format!(
                    "s{}.with_arc_mut(replace{}{})",
                    i,
                    if panics { "+panic" } else { "" },
                    if ra.is_some() { " existing" } else { " fresh" }
                ));
                self.st.counts.bump(if panics {
                    "thin.with_arc_mut.replace+panic"
                } else {
                    "thin.with_arc_mut.replace"
                });
                ensure!(
                    res.is_err() == panics,
                    "C10,C07",
                    "thin",
                    "with_arc_mut: panic propagation wrong (panicked={})",
                    res.is_err()
                );
                ensure!(
                    t.heap_ptr() as usize == repl_heap,
                    "C10",
                    "thin",
                    "after with_arc_mut replaced the Arc{}, the ThinArc does not point at the replacement",
                    if panics { " and panicked" } else { "" }
                );
                // model: slot i now owns the replacement's allocation; old allocation lost one owner
                let h = slot.h;
                match ra {
                    Some(oa) => {
                        self.slots[i] = Some(Slot { h, a: oa });
                    }
                    None => {
                        self.adopt(i, h, "with_arc_mut-fresh")?;
                    }
                }
                if owners == 1 {
                    self.expect_dead(a, "with_arc_mut-replace")?;
                }
                self.last_a = self.slots[i].as_ref().unwrap().a;
                self.verify("with_arc_mut(replace)")
            }
            4 => {
                // panic only
                let res = shadow::tracked(|| {
                    catch(|| t.with_arc_mut(|_p| -> () { panic!("callback panics") }))
                });
                self.st.counts.bump("thin.with_arc_mut.panic");
                ensure!(
                    res.is_err(),
                    "C07",
                    "thin",
                    "with_arc_mut swallowed a panic"
                );
                self.slots[i] = Some(slot);
                self.verify("with_arc_mut(panic)")
            }
            _ => {
                // count observed inside the callbacks
                let c1 = t.with_arc(|f| Arc::count(f));
                let c2 = shadow::tracked(|| t.with_arc_mut(|p| Arc::count(p)));
                self.st.counts.bump("count_obs.inside-with_arc_mut");
                ensure!(
                    c1 == owners && c2 == owners,
                    "C04",
                    "count",
                    "count inside with_arc/with_arc_mut = {}/{} with {} owners",
                    c1,
                    c2,
                    owners
                );
                self.slots[i] = Some(slot);
                self.verify("with_arc_mut(count)")
            }
        }
    }

    fn op_unique(&mut self, i: usize, a: usize, kind: &'static str) -> R {
        let owners = self.owners(a);
        let sole = owners == 1;
        let newtag = self.tag();
        let mut slot = self.slots[i].take().unwrap();
        match &mut slot.h {
            H2::Fat(f) => {
                let r = self.rng.below(4);
                match r {
                    0 => {
                        let g = Arc::get_mut(f)
                            .map(|m| {
                                m.header.header.set_tag(newtag);
                                if let Some(e) = m.slice.last_mut() {
                                    e.set_tag(newtag);
                                }
                            })
                            .is_some();
                        self.st.counts.bump(if g {
                            "uniq.fat.get_mut.grant"
                        } else {
                            "uniq.fat.get_mut.decline"
                        });
                        ensure!(
                            g == sole,
                            "C03",
                            "uniq",
                            "get_mut on the fat Arc granted={} with {} owners",
                            g,
                            owners
                        );
                        if g {
                            let m = &mut self.allocs[a];
                            m.htag = if A::HAS_ID { newtag } else { 0 };
                            if let Some(e) = m.elems.last_mut() {
                                e.1 = newtag;
                            }
                        }
                        self.slots[i] = Some(slot);
                    }
                    1 => {
                        let g = f.is_unique();
                        self.st.counts.bump(if g {
                            "uniq.fat.is_unique.grant"
                        } else {
                            "uniq.fat.is_unique.decline"
                        });
                        ensure!(
                            g == sole,
                            "C03",
                            "uniq",
                            "is_unique on the fat Arc = {} with {} owners",
                            g,
                            owners
                        );
                        self.slots[i] = Some(slot);
                    }
                    _ => {
                        let f = match slot.h {
                            H2::Fat(f) => f,
                            _ => unreachable!(),
                        };
                        let heap = f.heap_ptr() as usize;
                        match Arc::try_unique(f) {
                            Ok(u) => {
                                self.st.counts.bump("uniq.fat.try_unique.grant");
                                ensure!(
                                    sole,
                                    "C03,C09",
                                    "uniq",
                                    "try_unique on the fat Arc granted with {} owners",
                                    owners
                                );
                                self.slots[i] = Some(Slot { h: H2::Uniq(u), a });
                            }
                            Err(back) => {
                                self.st.counts.bump("uniq.fat.try_unique.decline");
                                ensure!(
                                    !sole,
                                    "C03,C09",
                                    "uniq",
                                    "try_unique on the fat Arc declined for a sole owner"
                                );
                                ensure!(
                                    back.heap_ptr() as usize == heap,
                                    "C03,C09",
                                    "uniq",
                                    "try_unique returned another allocation"
                                );
                                self.slots[i] = Some(Slot {
                                    h: H2::Fat(back),
                                    a,
                                });
                            }
                        }
                    }
                }
            }
            H2::Uniq(u) => {
                u.header.header.set_tag(newtag);
                self.allocs[a].htag = if A::HAS_ID { newtag } else { 0 };
                self.st.counts.bump("uniq.funiq.deref_mut");
                self.slots[i] = Some(slot);
            }
            _ => {
                let _ = kind;
                self.slots[i] = Some(slot);
            }
        }
        self.verify("unique-op")
    }

    /// Compare / order / hash / format thin handles, and panic inside the borrow callbacks:
    /// results must equal those on the plain values, and no count may move.
    fn op_compare(&mut self, i: usize) -> R {
        use std::hash::{Hash, Hasher};
        let used = self.used();
        let j = *self.rng.pick(&used);
        let (ai, aj) = (
            self.slots[i].as_ref().unwrap().a,
            self.slots[j].as_ref().unwrap().a,
        );
        let key = |m: &AllocM| (m.htag, m.elems.iter().map(|e| e.1).collect::<Vec<u64>>());
        let (ki, kj) = (key(&self.allocs[ai]), key(&self.allocs[aj]));
        let r = self.rng.below(4);
        let mut done = "thin.compare:none";
        if let (H2::Thin(x), H2::Thin(y)) = (
            &self.slots[i].as_ref().unwrap().h,
            &self.slots[j].as_ref().unwrap().h,
        ) {
            match r {
                0 | 1 => {
                    let eq = x == y;
                    let ord = x.cmp(y);
                    let pord = x.partial_cmp(y);
                    let mut h1 = crate::util::CallHasher::new();
                    x.hash(&mut h1);
                    let mut h2 = crate::util::CallHasher::new();
                    (**x).hash(&mut h2);
                    let dbg = format!("{:?}", x);
                    ensure!(
                        eq == (ki == kj),
                        "C14",
                        "cmp",
                        "ThinArc == gives {} for values {:?} and {:?}",
                        eq,
                        ki,
                        kj
                    );
                    ensure!(
                        ord == ki.cmp(&kj) && pord == Some(ord),
                        "C14",
                        "cmp",
                        "ThinArc cmp/partial_cmp = {:?}/{:?} for values {:?} and {:?}",
                        ord,
                        pord,
                        ki,
                        kj
                    );
                    ensure!(
                        h1.finish() == h2.finish(),
                        "C14",
                        "cmp",
                        "ThinArc hash differs from the hash of the value it holds"
                    );
                    ensure!(
                        dbg == format!("{:?}", &**x),
                        "C14",
                        "cmp",
                        "ThinArc {{:?}} differs from the value's"
                    );
                    done = "thin.compare:eq+cmp+hash+fmt";
                }
                2 => {
                    // a panicking callback inside with_arc must not move the count
                    let res =
                        catch(|| x.with_arc(|_f| -> () { panic!("with_arc callback panics") }));
                    ensure!(res.is_err(), "C07", "thin", "with_arc swallowed a panic");
                    done = "thin.with_arc.panic";
                }
                _ => {
                    // a panicking comparison / hash of the payload
                    let k = 1 + self.rng.below(3) as i64;
                    tk::cb_panic_at(k);
                    let which = self.rng.below(3);
                    let res = catch(|| match which {
                        0 => {
                            let _ = x == y;
                        }
                        1 => {
                            let _ = x.cmp(y);
                        }
                        _ => {
                            let mut h = crate::util::CallHasher::new();
                            x.hash(&mut h);
                        }
                    });
                    tk::cb_panic_at(0);
                    let _ = res;
                    done = "thin.compare.panic";
                }
            }
        } else if let (H2::Fat(x), H2::Fat(y)) = (
            &self.slots[i].as_ref().unwrap().h,
            &self.slots[j].as_ref().unwrap().h,
        ) {
            let eq = x == y;
            let ord = x.cmp(y);
            ensure!(
                eq == (ki == kj) && ord == ki.cmp(&kj),
                "C14",
                "cmp",
                "fat Arc ==/cmp = {}/{:?} for values {:?} and {:?}",
                eq,
                ord,
                ki,
                kj
            );
            done = "thin.compare:fat";
        }
        self.st.counts.bump(done);
        // both allocations' counts are re-read by verify (light mode looks at one)
        self.last_a = ai;
        self.verify(done)?;
        self.last_a = aj;
        self.verify(done)
    }

    /// Fat Arcs whose recorded length is wrong must be refused by into_thin, and still be released.
    fn op_bad_into_thin(&mut self) -> R {
        let n = self.len().min(8);
        let wrong = match self.rng.below(6) {
            0 => n + 1,
            1 => n.wrapping_sub(1),
            2 => 0,
            3 => n + 100,
            4 => usize::MAX,
            _ => n * 2 + 1,
        };
        if wrong == n {
            return Ok(());
        }
        let ht = self.tag();
        let t0 = self.tag();
        let live0 = tk::live();
        let z0 = tk::z_live();
        let r = self.rng.below(3);
        let keep = self.rng.below(2) == 0;
        let fat: Fat<A, B> = shadow::tracked(|| match r {
            0 => {
                Arc::from_header_and_iter(HeaderWithLength::new(A::make(ht), wrong), mk::<B>(n, t0))
            }
            1 => Arc::from_header_and_vec(
                HeaderWithLength::new(A::make(ht), wrong),
                mk::<B>(n, t0).collect(),
            ),
            _ => {
                // built truthfully, then the public length field is changed through get_mut
                let mut f = Arc::from_header_and_iter(
                    HeaderWithLength::new(A::make(ht), n),
                    mk::<B>(n, t0),
                );
                Arc::get_mut(&mut f).unwrap().header.length = wrong;
                f
            }
        });
        let block = fat.heap_ptr() as usize;
        let co = if keep { Some(fat.clone()) } else { None };
        let res = shadow::tracked(|| catch(|| Arc::into_thin(fat)));
        self.trace.push(format!(
            "into_thin(recorded={}, true={}, co-owner={})",
            wrong as isize, n, keep
        ));
        self.st.counts.bump("thin.bad_into_thin");
        match res {
            Ok(t) => {
                std::mem::forget(t);
                return viol(
                    "C10",
                    "thin",
                    format!(
                        "into_thin accepted a fat Arc recording length {} for a slice of {}",
                        wrong as isize, n
                    ),
                );
            }
            Err(_) => {}
        }
        match co {
            Some(mut c) => {
                // the surviving co-owner is the sole owner now: every uniqueness gate must say so
                ensure!(
                    c.is_unique() && Arc::get_mut(&mut c).is_some(),
                    "C10,C03,C04",
                    "thin",
                    "after a refused into_thin the surviving sole owner is declined by is_unique/get_mut (count {})",
                    Arc::count(&c)
                );
                ensure!(
                    Arc::count(&c) == 1,
                    "C10,C04",
                    "thin",
                    "refused into_thin did not release its Arc: co-owner sees count {}",
                    Arc::count(&c)
                );
                ensure!(
                    tk::live() == live0 + n as i64 + if A::HAS_ID { 1 } else { 0 },
                    "C10,C01",
                    "thin",
                    "refused into_thin destroyed the contents while a co-owner exists"
                );
                shadow::tracked(|| drop(c));
            }
            None => {}
        }
        ensure!(
            tk::live() == live0,
            "C10,C01",
            "thin",
            "after a refused into_thin {} tracked values were not destroyed",
            tk::live() - live0
        );
        ensure!(
            tk::z_live() == z0,
            "C10,C01",
            "thin",
            "after a refused into_thin the zero-sized header was not destroyed"
        );
        if shadow::active() {
            ensure!(
                shadow::live_layout(block).is_none(),
                "C10,C01",
                "thin",
                "after a refused into_thin the block was not returned"
            );
        }
        self.verify("bad-into_thin")
    }

    fn finish(&mut self) -> R {
        loop {
            let used = self.used();
            if used.is_empty() {
                break;
            }
            let i = *self.rng.pick(&used);
            let slot = self.slots[i].take().unwrap();
            let a = slot.a;
            let kind = slot.h.kind();
            let owners = self.owners(a) + 1;
            shadow::tracked(|| drop2(slot.h));
            if owners == 1 {
                self.expect_dead(a, kind)?;
            }
            self.last_a = a;
            self.verify("final-drop")?;
        }
        ensure!(
            tk::live() == 0,
            "C01",
            "live",
            "{} tracked values alive at quiescence",
            tk::live()
        );
        if shadow::active() {
            shadow::flush_quarantine();
            if let Some(x) = shadow::take_findings().first() {
                return viol(
                    "C01",
                    "alloc",
                    format!("at quiescence: allocator monitor: {:?}", x),
                );
            }
            let lb = shadow::live_blocks();
            ensure!(
                lb.is_empty(),
                "C01",
                "live",
                "{} blocks never returned: {:x?}",
                lb.len(),
                &lb[..lb.len().min(4)]
            );
        }
        Ok(())
    }
}

pub fn run_one<A: Pay + Send + Sync, B: Pay + Send + Sync>(
    seed: u64,
    nops: usize,
    light: bool,
    st: &mut Stats,
) -> Result<(), (Vec<Viol>, Vec<String>)> {
    let id0 = tk::next_id();
    shadow::reset();
    let _ = tk::take_findings();
    let mut w: W<A, B> = W {
        slots: (0..NSLOTS).map(|_| None).collect(),
        allocs: Vec::new(),
        rng: Rng::new(seed ^ 0x7417),
        trace: Vec::new(),
        st,
        next_tag: seed % 100,
        light,
        last_a: usize::MAX,
        z0: tk::z_live(),
        soft: Vec::new(),
    };
    let mut res = Ok(());
    for _ in 0..nops {
        if let Err(v) = w.step() {
            res = Err(v);
            break;
        }
    }
    if res.is_ok() {
        res = w.finish();
    }
    w.st.counts.bump("thin.histories");
    w.st.counts.add("thin.ops", w.trace.len() as u64);
    if w.st.sample.is_empty() || seed % 97 == 0 {
        w.st.sample = w.trace.iter().take(40).cloned().collect();
    }
    let mut viols = std::mem::take(&mut w.soft);
    let out = match res {
        Ok(()) if viols.is_empty() => Ok(()),
        Ok(()) => Err((viols, std::mem::take(&mut w.trace))),
        Err(v) => {
            let t = std::mem::take(&mut w.trace);
            for s in w.slots.drain(..) {
                std::mem::forget(s);
            }
            viols.push(v);
            Err((viols, t))
        }
    };
    drop(w);
    tk::reset_range(id0);
    let _ = tk::take_findings();
    let _ = shadow::take_findings();
    out
}

// ---------------------------------------------------------------------------------------------
// zero-sized elements: the ThinArc constructors refuse them, but `Arc::from_header_and_vec` + `Arc::into_thin` is a
// safe path to a ThinArc of zero-sized elements -- the recorded length is then the *only* source of the slice length.

pub fn zst_element_cases(st: &mut crate::hist::Stats) -> R {
    use crate::tk::{T8, Z};
    for n in [0usize, 1, 2, 5] {
        for wrong in [n, n + 1, n.wrapping_sub(1), 0, n + 3, usize::MAX, 2 * n + 1] {
            let what = format!("into_thin of {} zero-sized elements with recorded length {}", n, wrong as isize);
            let z0 = tk::z_live();
            let live0 = tk::live();
            shadow::reset();
            let built = shadow::tracked(|| {
                catch(|| Arc::from_header_and_vec(HeaderWithLength::new(T8::make(3), wrong), (0..n).map(|_| Z::make(1)).collect::<Vec<Z>>()))
            });
            let fat = match built {
                Ok(f) => f,
                // a constructor may refuse zero-sized elements up front (C06); every input must then be gone again
                Err(_) => {
                    ensure!(tk::z_live() == z0 && tk::live() == live0, "C06,C10", "thin", "{}: refused construction left values behind", what);
                    continue;
                }
            };
            ensure!(fat.slice.len() == n, "C06,C10", "thin", "{}: the fat Arc holds {} elements", what, fat.slice.len());
            let res = shadow::tracked(|| catch(|| Arc::into_thin(fat)));
            match res {
                Ok(t) => {
                    ensure!(
                        wrong == n,
                        "C10",
                        "thin",
                        "{}: the conversion was accepted; the ThinArc shows {} elements",
                        what,
                        t.slice.len()
                    );
                    ensure!(t.slice.len() == n && t.header.length == n && tk::z_live() == z0 + n as i64, "C10", "thin", "{}: accepted ThinArc shows {} elements ({} alive)", what, t.slice.len(), tk::z_live() - z0);
                    shadow::tracked(|| drop(t));
                }
                Err(_) => {
                    ensure!(wrong != n, "C10", "thin", "{}: a correct length was refused", what);
                }
            }
            ensure!(
                tk::z_live() == z0 && tk::live() == live0,
                "C10,C01",
                "thin",
                "{}: afterwards {} zero-sized elements and {} headers are still alive (each must be destroyed exactly once)",
                what,
                tk::z_live() - z0,
                tk::live() - live0
            );
            if shadow::active() {
                if let Some(x) = shadow::take_findings().first() {
                    return viol("C10,C05", "thin", format!("{}: allocator monitor: {:?}", what, x));
                }
                ensure!(shadow::live_count() == 0, "C10,C01", "thin", "{}: block left behind", what);
            }
            st.counts.bump("thin.zst_elements");
        }
    }
    Ok(())
}

