//! uninit engine [C15]: handles created uninitialised can be dropped at any point before
//! assume_init without an element destructor running (written or not), the header is destroyed
//! exactly once; assume_init keeps allocation, contents and count; deprecated writes through a
//! shared handle panic and leave every other view intact.

use crate::ensure;
use crate::shadow;
use crate::tk::{self, Pay};
use crate::util::*;
use std::collections::BTreeSet;
use std::mem::MaybeUninit;
use triomphe::{Arc, HeaderSlice, OffsetArc, UniqueArc};

pub struct UStats {
    pub counts: Counts,
    pub cases: BTreeSet<u64>,
    pub sample: Vec<String>,
}
impl UStats {
    pub fn new() -> Self {
        UStats {
            counts: Counts::default(),
            cases: BTreeSet::new(),
            sample: Vec::new(),
        }
    }
}

fn begin() -> u32 {
    shadow::reset();
    let _ = tk::take_findings();
    tk::next_id()
}

/// After the case: `expect_live` are the ids that must still be alive (written but never assumed:
/// by contract not destroyed); everything else made since `id0` must be dead exactly once.
fn end(what: &str, id0: u32, expect_live: &[u32], leaked_blocks: usize) -> R {
    let f = tk::take_findings();
    ensure!(f.is_empty(), "C15", "uninit", "{}: {}", what, f.join("; "));
    for id in id0..tk::next_id() {
        let st = tk::state(id);
        if expect_live.contains(&id) {
            ensure!(
                st == tk::LIVE_S,
                "C15",
                "uninit",
                "{}: element id={} written into a never-assumed slot was destroyed (state {})",
                what,
                id,
                st
            );
        } else {
            ensure!(
                st == tk::DEAD,
                "C15",
                "uninit",
                "{}: value id={} was not destroyed exactly once (state {})",
                what,
                id,
                st
            );
        }
    }
    if shadow::active() {
        if let Some(x) = shadow::take_findings().first() {
            return viol(
                "C15,C05",
                "uninit",
                format!("{}: allocator monitor: {:?}", what, x),
            );
        }
        let n = shadow::live_count();
        ensure!(
            n == leaked_blocks,
            "C15",
            "uninit",
            "{}: {} blocks alive at the end, expected {}",
            what,
            n,
            leaked_blocks
        );
    }
    tk::reset_range(id0);
    Ok(())
}

/// A length whose layout cannot be computed: the constructor must refuse with a panic; the header it was
/// handed is initialised and owned by the call, so it is destroyed exactly once, and nothing stays allocated.
pub fn refused_len_case<H: Pay, E: Pay>(which: usize, st: &mut UStats) -> R {
    let esz = std::mem::size_of::<E>().max(1);
    let lens = [
        usize::MAX,
        usize::MAX / 2,
        isize::MAX as usize / esz + 1,
        usize::MAX / esz + 1,
        isize::MAX as usize,
    ];
    if std::mem::size_of::<E>() == 0 {
        return Ok(());
    }
    let len = lens[which % lens.len()];
    let what = format!(
        "from_header_and_uninit_slice::<{}, {}>(len={:#x}) refused",
        H::NAME,
        E::NAME,
        len
    );
    let id0 = begin();
    let h = shadow::tracked(|| H::make(7));
    let r = shadow::tracked(|| {
        catch(|| {
            let u = UniqueArc::<HeaderSlice<H, [MaybeUninit<E>]>>::from_header_and_uninit_slice(h, len);
            let l = u.slice.len();
            std::mem::forget(u);
            l
        })
    });
    ensure!(
        r.is_err(),
        "C15,C05",
        "uninit",
        "{}: a handle came back for a length whose size overflows (slice length {:?})",
        what,
        r.ok()
    );
    end(&what, id0, &[], 0)?;
    st.counts.bump("uninit.refused-length");
    Ok(())
}

pub const SLICE_PATHS: usize = 7;

/// len elements, `mask` bit k set = slot k is written before the handle is dropped / assumed.
pub fn slice_case<H: Pay, E: Pay>(len: usize, mask: u64, path: usize, st: &mut UStats) -> R {
    let what = format!(
        "H={} E={} len={} written={:#b} path=U{}",
        H::NAME,
        E::NAME,
        len,
        mask,
        path
    );
    let id0 = begin();
    let z0 = tk::z_live();
    let all: u64 = if len >= 64 {
        u64::MAX
    } else {
        (1u64 << len) - 1
    };
    let has_heap = E::NAME == "TB";
    let mut written: Vec<u32> = Vec::new();
    let mut header_id = 0u32;
    let wr = |slots: &mut [MaybeUninit<E>], mask: u64, written: &mut Vec<u32>| {
        for (k, s) in slots.iter_mut().enumerate() {
            if k < 64 && mask & (1 << k) != 0 || (k >= 64 && mask == u64::MAX) {
                let v = E::make(k as u64 % 200 + 1);
                shadow::untracked(|| written.push(v.id()));
                s.write(v);
            }
        }
    };
    match path {
        // ---- dropped before assume_init
        0 => {
            let mut a: Arc<[MaybeUninit<E>]> = shadow::tracked(|| Arc::new_uninit_slice(len));
            ensure!(
                a.len() == len && Arc::count(&a) == 1,
                "C15",
                "uninit",
                "{}: new_uninit_slice gave len {} count {}",
                what,
                a.len(),
                Arc::count(&a)
            );
            shadow::tracked(|| {
                wr(
                    Arc::get_mut(&mut a).expect("fresh uninit slice is unique"),
                    mask,
                    &mut written,
                )
            });
            let heap = a.heap_ptr() as usize;
            shadow::tracked(|| drop(a));
            if shadow::active() {
                ensure!(
                    shadow::live_layout(heap).is_none(),
                    "C15",
                    "uninit",
                    "{}: block not returned",
                    what
                );
            }
        }
        1 => {
            let mut u: UniqueArc<[MaybeUninit<E>]> =
                shadow::tracked(|| UniqueArc::new_uninit_slice(len));
            shadow::tracked(|| wr(&mut u[..], mask, &mut written));
            shadow::tracked(|| drop(u));
        }
        2 => {
            let h = shadow::tracked(|| H::make(140));
            header_id = h.id();
            let mut u: UniqueArc<HeaderSlice<H, [MaybeUninit<E>]>> =
                shadow::tracked(|| UniqueArc::from_header_and_uninit_slice(h, len));
            ensure!(
                u.slice.len() == len && (!H::HAS_ID || u.header.id() == header_id),
                "C15,C06",
                "uninit",
                "{}: wrong length or header",
                what
            );
            shadow::tracked(|| wr(&mut u.slice, mask, &mut written));
            shadow::tracked(|| drop(u));
            if H::HAS_ID {
                ensure!(
                    tk::state(header_id) == tk::DEAD,
                    "C15",
                    "uninit",
                    "{}: the header was not destroyed when the uninitialised handle was dropped",
                    what
                );
            }
        }
        // ---- every slot written, then assume_init
        3 => {
            let mut a: Arc<[MaybeUninit<E>]> = shadow::tracked(|| Arc::new_uninit_slice(len));
            shadow::tracked(|| wr(Arc::get_mut(&mut a).unwrap(), all, &mut written));
            let heap = a.heap_ptr() as usize;
            let addr = (*a).as_ptr() as usize;
            let b: Arc<[E]> = unsafe { a.assume_init() };
            check_init(&what, &b, &written, heap, addr, len)?;
            let c = shadow::tracked(|| b.clone());
            ensure!(
                Arc::count(&b) == 2,
                "C15,C04",
                "uninit",
                "{}: count after clone {}",
                what,
                Arc::count(&b)
            );
            shadow::tracked(|| {
                drop(b);
                drop(c)
            });
            written.clear();
        }
        4 => {
            let mut u: UniqueArc<[MaybeUninit<E>]> =
                shadow::tracked(|| UniqueArc::new_uninit_slice(len));
            shadow::tracked(|| wr(&mut u[..], all, &mut written));
            let addr = (*u).as_ptr() as usize;
            let b: Arc<[E]> = unsafe { UniqueArc::assume_init_slice(u) }.shareable();
            let heap = b.heap_ptr() as usize;
            check_init(&what, &b, &written, heap, addr, len)?;
            shadow::tracked(|| drop(b));
            written.clear();
        }
        5 => {
            let h = shadow::tracked(|| H::make(140));
            header_id = h.id();
            let mut u: UniqueArc<HeaderSlice<H, [MaybeUninit<E>]>> =
                shadow::tracked(|| UniqueArc::from_header_and_uninit_slice(h, len));
            shadow::tracked(|| wr(&mut u.slice, all, &mut written));
            let addr = u.slice.as_ptr() as usize;
            let haddr = &u.header as *const H as usize;
            let b: Arc<HeaderSlice<H, [E]>> =
                unsafe { u.assume_init_slice_with_header() }.shareable();
            ensure!(
                b.slice.as_ptr() as usize == addr
                    && &b.header as *const H as usize == haddr
                    && b.slice.len() == len
                    && Arc::count(&b) == 1,
                "C15",
                "uninit",
                "{}: assume_init_slice_with_header changed allocation, length or count",
                what
            );
            for (k, e) in b.slice.iter().enumerate() {
                ensure!(
                    e.check().is_ok() && (!E::HAS_ID || e.id() == written[k]),
                    "C15",
                    "uninit",
                    "{}: element {} differs after assume_init",
                    what,
                    k
                );
            }
            ensure!(
                b.header.check().is_ok() && (!H::HAS_ID || b.header.id() == header_id),
                "C15",
                "uninit",
                "{}: header differs after assume_init",
                what
            );
            shadow::tracked(|| drop(b));
            written.clear();
        }
        // ---- deprecated as_mut_slice on a shared / sole handle
        _ => {
            let mut a: Arc<[MaybeUninit<E>]> = shadow::tracked(|| Arc::new_uninit_slice(len));
            shadow::tracked(|| wr(Arc::get_mut(&mut a).unwrap(), all, &mut written));
            let co = shadow::tracked(|| a.clone());
            let before = bytes_of(&co);
            #[allow(deprecated)]
            let r = shadow::tracked(|| {
                catch(|| {
                    let s = a.as_mut_slice();
                    if let Some(x) = s.first_mut() {
                        // overwrite the first byte: visible to the co-owner if this ever runs
                        unsafe { *(x.as_mut_ptr() as *mut u8) ^= 0xFF };
                    }
                })
            });
            ensure!(
                r.is_err(),
                "C15,C03",
                "uninit",
                "{}: deprecated as_mut_slice gave mutable access to a shared allocation",
                what
            );
            ensure!(
                bytes_of(&co) == before && Arc::count(&co) == 2,
                "C15,C03",
                "uninit",
                "{}: the other handle's view changed after a refused write",
                what
            );
            shadow::tracked(|| drop(co));
            #[allow(deprecated)]
            let r2 = shadow::tracked(|| catch(|| a.as_mut_slice().len()));
            ensure!(
                r2 == Ok(len),
                "C15,C03",
                "uninit",
                "{}: deprecated as_mut_slice refused a sole owner: {:?}",
                what,
                r2
            );
            let b: Arc<[E]> = unsafe { a.assume_init() };
            shadow::tracked(|| drop(b));
            written.clear();
        }
    }
    let leaked = if has_heap { written.len() } else { 0 };
    end(&what, id0, &written, leaked)?;
    ensure!(
        tk::z_live() == z0 || !written.is_empty() || std::mem::size_of::<E>() != 0,
        "C15",
        "uninit",
        "{}: zero-sized values not destroyed exactly once",
        what
    );
    st.counts.bump(&format!("uninit.slice.path{}", path));
    st.counts.bump("uninit.cases");
    let mclass = if mask == 0 {
        "none"
    } else if mask & all == all {
        "all"
    } else {
        "some"
    };
    st.cases.insert(hash64(&format!(
        "s|{}|{}|{}|{}|{}",
        H::NAME,
        E::NAME,
        len.min(40),
        mclass,
        path
    )));
    if st.sample.len() < 6 && len == 3 {
        st.sample.push(what);
    }
    Ok(())
}

fn bytes_of<E: Pay>(a: &Arc<[MaybeUninit<E>]>) -> Vec<(u32, u64)> {
    // every slot was written: read identity and value of each element through this handle
    a.iter()
        .map(|m| unsafe { m.assume_init_ref() })
        .map(|e| (e.id(), e.tag()))
        .collect()
}

fn check_init<E: Pay>(
    what: &str,
    b: &Arc<[E]>,
    written: &[u32],
    heap: usize,
    addr: usize,
    len: usize,
) -> R {
    ensure!(
        b.heap_ptr() as usize == heap
            && (**b).as_ptr() as usize == addr
            && b.len() == len
            && Arc::count(b) == 1,
        "C15",
        "uninit",
        "{}: assume_init changed allocation, address, length or count",
        what
    );
    for (k, e) in b.iter().enumerate() {
        if let Err(m) = e.check() {
            return viol(
                "C15",
                "uninit",
                format!("{}: element {} after assume_init: {}", what, k, m),
            );
        }
        ensure!(
            !E::HAS_ID || e.id() == written[k],
            "C15",
            "uninit",
            "{}: element {} is not the value written",
            what,
            k
        );
    }
    Ok(())
}

pub const SIZED_PATHS: usize = 11;

pub fn sized_case<P: Pay>(path: usize, st: &mut UStats) -> R {
    let what = format!("P={} path=V{}", P::NAME, path);
    let id0 = begin();
    let mut live: Vec<u32> = Vec::new();
    let has_heap = P::NAME == "TB";
    match path {
        0 => {
            let a: Arc<MaybeUninit<P>> = shadow::tracked(|| Arc::new_uninit());
            ensure!(
                Arc::count(&a) == 1,
                "C15",
                "uninit",
                "{}: count {}",
                what,
                Arc::count(&a)
            );
            shadow::tracked(|| drop(a));
        }
        1 => {
            let mut a: Arc<MaybeUninit<P>> = shadow::tracked(|| Arc::new_uninit());
            let v = shadow::tracked(|| P::make(7));
            live.push(v.id());
            Arc::get_mut(&mut a).unwrap().write(v);
            shadow::tracked(|| drop(a));
        }
        2 => {
            let u: UniqueArc<MaybeUninit<P>> = shadow::tracked(|| UniqueArc::new_uninit());
            shadow::tracked(|| drop(u));
        }
        3 => {
            let mut u: UniqueArc<MaybeUninit<P>> = shadow::tracked(|| UniqueArc::new_uninit());
            let v = shadow::tracked(|| P::make(7));
            live.push(v.id());
            u.write(v);
            shadow::tracked(|| drop(u));
        }
        4 => {
            let mut a: Arc<MaybeUninit<P>> = shadow::tracked(|| Arc::new_uninit());
            let v = shadow::tracked(|| P::make(7));
            let id = v.id();
            Arc::get_mut(&mut a).unwrap().write(v);
            let heap = a.heap_ptr() as usize;
            let addr = Arc::as_ptr(&a) as usize;
            let b: Arc<P> = unsafe { a.assume_init() };
            ensure!(
                b.heap_ptr() as usize == heap
                    && Arc::as_ptr(&b) as usize == addr
                    && Arc::count(&b) == 1,
                "C15",
                "uninit",
                "{}: assume_init changed allocation or count",
                what
            );
            ensure!(
                b.check().is_ok() && b.id() == id,
                "C15",
                "uninit",
                "{}: assume_init changed the contents",
                what
            );
            shadow::tracked(|| drop(b));
        }
        5 => {
            let mut u: UniqueArc<MaybeUninit<P>> = shadow::tracked(|| UniqueArc::new_uninit());
            let v = shadow::tracked(|| P::make(7));
            let id = v.id();
            let r = u.write(v) as *mut P as usize;
            let b: UniqueArc<P> = unsafe { UniqueArc::assume_init(u) };
            ensure!(
                &*b as *const P as usize == r && b.check().is_ok() && b.id() == id,
                "C15",
                "uninit",
                "{}: UniqueArc::assume_init changed allocation or contents",
                what
            );
            let b = b.shareable();
            ensure!(
                Arc::count(&b) == 1,
                "C15",
                "uninit",
                "{}: count {}",
                what,
                Arc::count(&b)
            );
            shadow::tracked(|| drop(b));
        }
        6 | 7 | 8 => {
            // deprecated Arc::write on a shared handle: co-owner kinds Arc / OffsetArc / raw pointer
            let mut a: Arc<MaybeUninit<P>> = shadow::tracked(|| Arc::new_uninit());
            let v = shadow::tracked(|| P::make(7));
            let id = v.id();
            Arc::get_mut(&mut a).unwrap().write(v);
            enum Co<P> {
                A(Arc<MaybeUninit<P>>),
                O(OffsetArc<MaybeUninit<P>>),
                R(*const MaybeUninit<P>),
            }
            let co = shadow::tracked(|| match path {
                6 => Co::A(a.clone()),
                7 => Co::O(Arc::into_raw_offset(a.clone())),
                _ => Co::R(Arc::into_raw(a.clone())),
            });
            let view = |co: &Co<P>| -> (u32, u64) {
                let m: &MaybeUninit<P> = match co {
                    Co::A(x) => &**x,
                    Co::O(x) => &**x,
                    Co::R(p) => unsafe { &**p },
                };
                let p = unsafe { m.assume_init_ref() };
                (p.id(), p.tag())
            };
            let before = view(&co);
            let v2 = shadow::tracked(|| P::make(99));
            let id2 = v2.id();
            let mut slot = Some(v2);
            #[allow(deprecated)]
            let r = shadow::tracked(|| {
                catch(|| {
                    a.write(slot.take().unwrap());
                })
            });
            ensure!(
                r.is_err(),
                "C15,C03",
                "uninit",
                "{}: deprecated Arc::write mutated an allocation with 2 owners",
                what
            );
            ensure!(
                view(&co) == before && before.0 == id && Arc::count(&a) == 2,
                "C15,C03",
                "uninit",
                "{}: the other handle's view or the count changed after a refused write",
                what
            );
            // the refused value was dropped during unwinding (or is still in `slot`)
            drop(slot);
            ensure!(
                !P::HAS_ID || tk::state(id2) == tk::DEAD,
                "C15",
                "uninit",
                "{}: the value passed to a refused write was not destroyed exactly once",
                what
            );
            shadow::tracked(|| match co {
                Co::A(x) => drop(x),
                Co::O(x) => drop(x),
                Co::R(p) => drop(unsafe { Arc::from_raw(p) }),
            });
            let b: Arc<P> = unsafe { a.assume_init() };
            shadow::tracked(|| drop(b));
        }
        10 => {
            // assume_init on a *shared* (fully initialised) handle: the type changes, allocation / contents / count do not
            let mut a: Arc<MaybeUninit<P>> = shadow::tracked(|| Arc::new_uninit());
            let v = shadow::tracked(|| P::make(7));
            let id = v.id();
            Arc::get_mut(&mut a).unwrap().write(v);
            let heap = a.heap_ptr() as usize;
            let keep = shadow::tracked(|| a.clone());
            let keep_off = shadow::tracked(|| Arc::into_raw_offset(a.clone()));
            let r = shadow::tracked(|| catch(|| unsafe { a.assume_init() }));
            let b: Arc<P> = match r {
                Ok(b) => b,
                Err(m) => {
                    return viol(
                        "C15,C04",
                        "uninit",
                        format!("{}: assume_init of a shared, initialised Arc<MaybeUninit<T>> panicked: {}", what, m),
                    )
                }
            };
            ensure!(
                b.heap_ptr() as usize == heap && Arc::count(&b) == 3 && Arc::count(&keep) == 3 && OffsetArc::strong_count(&keep_off) == 3,
                "C15,C04",
                "uninit",
                "{}: assume_init on a shared handle changed the allocation or the count ({} / {} with 3 owners)",
                what,
                Arc::count(&b),
                Arc::count(&keep)
            );
            ensure!(
                b.check().is_ok() && b.id() == id,
                "C15",
                "uninit",
                "{}: assume_init on a shared handle changed the contents",
                what
            );
            shadow::tracked(|| {
                drop(keep);
                drop(keep_off);
            });
            ensure!(Arc::count(&b) == 1 && b.check().is_ok(), "C15,C04,C01", "uninit", "{}: after the uninitialised-typed co-owners let go the value is damaged or the count is {}", what, Arc::count(&b));
            shadow::tracked(|| drop(b));
        }
        _ => {
            // sole owner: the deprecated write succeeds
            let mut a: Arc<MaybeUninit<P>> = shadow::tracked(|| Arc::new_uninit());
            let v = shadow::tracked(|| P::make(7));
            let id = v.id();
            #[allow(deprecated)]
            let r = shadow::tracked(|| catch(|| a.write(v).id()));
            ensure!(
                r == Ok(id),
                "C15,C03",
                "uninit",
                "{}: deprecated Arc::write refused a sole owner: {:?}",
                what,
                r
            );
            let b: Arc<P> = unsafe { a.assume_init() };
            ensure!(b.id() == id, "C15", "uninit", "{}: contents differ", what);
            shadow::tracked(|| drop(b));
        }
    }
    end(&what, id0, &live, if has_heap { live.len() } else { 0 })?;
    st.counts.bump(&format!("uninit.sized.path{}", path));
    st.counts.bump("uninit.cases");
    st.cases.insert(hash64(&format!("v|{}|{}", P::NAME, path)));
    Ok(())
}
