//! faults engine [C07]: enumerated panic points in every callback the library runs, lying
//! iterators, and (in child processes) allocation failure.
//!
//! For each site the engine first runs the call counting callback invocations, then re-runs it
//! with a panic injected at the k-th invocation for k = 1..=calls+1, and after catch_unwind
//! checks: surviving handles valid with accurate counts and intact contents, every tracked value
//! destroyed at most once and none never-constructed, and after releasing the survivors nothing
//! left except the tolerated half-built block of the from_header_and_iter family.

use crate::ensure;
use crate::shadow;
use crate::tk::{self, Pay, T8};
use crate::util::*;
use std::collections::BTreeSet;
use std::hash::{Hash, Hasher};
use triomphe::{Arc, ArcUnion, HeaderSlice, HeaderWithLength, OffsetArc, ThinArc, UniqueArc};

pub struct FStats {
    pub counts: Counts,
    pub cases: BTreeSet<u64>,
    pub sample: Vec<String>,
}
impl FStats {
    pub fn new() -> Self {
        FStats {
            counts: Counts::default(),
            cases: BTreeSet::new(),
            sample: Vec::new(),
        }
    }
}

/// A payload made of several tracked parts: one `clone` has several inner panic points, and
/// comparison / hashing / formatting call back several times.
#[derive(Clone, PartialEq, Eq, PartialOrd, Ord, Hash, Debug)]
pub struct Multi {
    pub a: T8,
    pub b: T8,
    pub c: T8,
}
impl Multi {
    pub fn make(t: u64) -> Multi {
        Multi {
            a: T8::make(t),
            b: T8::make(t + 1),
            c: T8::make(t + 2),
        }
    }
    pub fn ids(&self) -> [u32; 3] {
        [self.a.id(), self.b.id(), self.c.id()]
    }
    pub fn check(&self) -> Result<(), String> {
        self.a.check()?;
        self.b.check()?;
        self.c.check()
    }
}

thread_local! {
    static FIT_FIRED: std::cell::Cell<bool> = const { std::cell::Cell::new(false) };
}
fn fit_fired() -> bool {
    FIT_FIRED.with(|c| c.replace(false))
}

/// Iterator whose `next` panics at the k-th call and whose reported length may lie.
pub struct FIt {
    pub items: std::vec::IntoIter<T8>,
    pub calls: u64,
    pub panic_at: u64,      // 0 = never
    pub report: Vec<usize>, // successive answers of len()/size_hint(); last one repeats; empty = truthful
    pub asked: std::cell::Cell<usize>,
    pub exact_hint: bool,
}
impl FIt {
    fn answer(&self) -> usize {
        if self.report.is_empty() {
            return self.items.len();
        }
        let i = self.asked.get().min(self.report.len() - 1);
        self.asked.set(self.asked.get() + 1);
        self.report[i]
    }
}
impl Iterator for FIt {
    type Item = T8;
    fn next(&mut self) -> Option<T8> {
        self.calls += 1;
        if self.panic_at != 0 && self.calls == self.panic_at {
            FIT_FIRED.with(|c| c.set(true));
            panic!("injected iterator panic at call {}", self.calls);
        }
        self.items.next()
    }
    fn size_hint(&self) -> (usize, Option<usize>) {
        let n = self.answer();
        if self.exact_hint {
            (n, Some(n))
        } else {
            (0, None)
        }
    }
}
impl ExactSizeIterator for FIt {
    fn len(&self) -> usize {
        self.answer()
    }
}

fn fit(n: usize, panic_at: u64, report: Vec<usize>, exact_hint: bool) -> (FIt, Vec<u32>) {
    let v: Vec<T8> = (0..n).map(|k| T8::make(10 + k as u64)).collect();
    let ids = shadow::untracked(|| v.iter().map(|e| e.id()).collect());
    (
        FIt {
            items: v.into_iter(),
            calls: 0,
            panic_at,
            report,
            asked: std::cell::Cell::new(0),
            exact_hint,
        },
        ids,
    )
}

fn begin() -> u32 {
    shadow::reset();
    let _ = tk::take_findings();
    tk::clone_panic_at(0);
    tk::cb_panic_at(0);
    tk::next_id()
}

/// After everything was released: only `tolerated` (ids moved into a half-built allocation) may be alive.
fn end(what: &str, id0: u32, tolerated: &[u32], max_leaked_blocks: usize) -> R {
    tk::clone_panic_at(0);
    tk::cb_panic_at(0);
    let f = tk::take_findings();
    ensure!(f.is_empty(), "C07,C01", "faults", "{}: {}", what, f.join("; "));
    let mut alive = Vec::new();
    for id in id0..tk::next_id() {
        match tk::state(id) {
            tk::LIVE_S => alive.push(id),
            tk::DEAD => {}
            _ => {}
        }
    }
    for id in &alive {
        ensure!(
            tolerated.contains(id),
            "C07,C01",
            "faults",
            "{}: tracked value id={} was neither destroyed nor part of a tolerated half-built allocation",
            what,
            id
        );
    }
    if shadow::active() {
        if let Some(x) = shadow::take_findings().first() {
            return viol(
                "C07,C01,C05",
                "faults",
                format!("{}: allocator monitor: {:?}", what, x),
            );
        }
        let lb = shadow::live_blocks();
        ensure!(
            lb.len() <= max_leaked_blocks,
            "C07,C01",
            "faults",
            "{}: {} blocks left behind (at most {} tolerated): {:x?}",
            what,
            lb.len(),
            max_leaked_blocks,
            &lb[..lb.len().min(3)]
        );
    }
    tk::reset_range(id0);
    Ok(())
}

// ---------------------------------------------------------------------------------------------
// A. iterator callbacks

pub const ITER_SITES: usize = 5;
const ITER_NAMES: [&str; ITER_SITES] = [
    "Arc::from_header_and_iter",
    "ThinArc::from_header_and_iter",
    "FromIterator(exact) for Arc<[T]>",
    "FromIterator(inexact) for Arc<[T]>",
    "FromIterator(exact) for UniqueArc<[T]>",
];

enum Built {
    Hs(Arc<HeaderSlice<T8, [T8]>>),
    Thin(ThinArc<T8, T8>),
    Sl(Arc<[T8]>),
    Us(UniqueArc<[T8]>),
}

fn build(site: usize, it: FIt) -> Built {
    match site {
        0 => Built::Hs(Arc::from_header_and_iter(T8::make(99), it)),
        1 => Built::Thin(ThinArc::from_header_and_iter(T8::make(99), it)),
        2 | 3 => Built::Sl(it.collect()),
        _ => Built::Us(it.collect()),
    }
}

fn check_built(what: &str, b: &Built, ids: &[u32]) -> R {
    let s: &[T8] = match b {
        Built::Hs(a) => &a.slice,
        Built::Thin(t) => {
            ensure!(
                t.header.length == t.slice.len(),
                "C07,C10",
                "faults",
                "{}: ThinArc records a wrong length",
                what
            );
            &t.slice
        }
        Built::Sl(a) => &a[..],
        Built::Us(u) => &u[..],
    };
    ensure!(
        s.len() == ids.len(),
        "C07,C06",
        "faults",
        "{}: completed with {} elements although the iterator yielded {}",
        what,
        s.len(),
        ids.len()
    );
    for (k, e) in s.iter().enumerate() {
        if let Err(m) = e.check() {
            return viol(
                "C07",
                "faults",
                format!("{}: element {} of the result: {}", what, k, m),
            );
        }
        ensure!(
            e.id() == ids[k],
            "C07,C06",
            "faults",
            "{}: element {} is not the one the iterator yielded",
            what,
            k
        );
    }
    Ok(())
}

fn check_built_valid(what: &str, b: &Built, ids: &[u32]) -> R {
    let tags = if let Built::Thin(_) = b {
        "C07,C10,C01"
    } else {
        "C07,C01"
    };
    let s: &[T8] = match b {
        Built::Hs(a) => &a.slice,
        Built::Thin(t) => {
            ensure!(
                t.header.length == t.slice.len(),
                "C07,C10",
                "faults",
                "{}: ThinArc records a wrong length",
                what
            );
            &t.slice
        }
        Built::Sl(a) => &a[..],
        Built::Us(u) => &u[..],
    };
    let mut seen = Vec::new();
    for (k, e) in s.iter().enumerate() {
        if let Err(m) = e.check() {
            return viol(
                tags,
                "faults",
                format!(
                    "{}: slot {} of the result was never written or is damaged: {}",
                    what, k, m
                ),
            );
        }
        ensure!(
            ids.contains(&e.id()) && !seen.contains(&e.id()),
            tags,
            "faults",
            "{}: slot {} holds a value the iterator did not yield (or holds it twice)",
            what,
            k
        );
        seen.push(e.id());
    }
    Ok(())
}

/// Panic at the k-th `next`, for k = 1, 2, ... until a run completes without reaching the fault.
pub fn iter_panics(site: usize, n: usize, st: &mut FStats) -> R {
    let mut k = 1u64;
    loop {
        let what = format!("{} n={} panic at next() call {}", ITER_NAMES[site], n, k);
        let id0 = begin();
        let _ = fit_fired();
        let (it, ids) = shadow::tracked(|| fit(n, k, vec![], site != 3));
        let r = shadow::tracked(|| catch(|| build(site, it)));
        let fired = fit_fired();
        let mut tolerated: Vec<u32> = Vec::new();
        match r {
            Ok(b) => {
                ensure!(
                    !fired,
                    "C07",
                    "faults",
                    "{}: completed although the iterator panicked",
                    what
                );
                check_built(&what, &b, &ids)?;
                shadow::tracked(|| drop(b));
                st.counts.bump("faults.iter.completed");
            }
            Err(msg) => {
                ensure!(
                    fired,
                    "C07",
                    "faults",
                    "{}: panicked without an injected fault: {}",
                    what,
                    msg
                );
                // the header and the elements already yielded may sit in the leaked half-built block
                if site != 3 {
                    tolerated.push(id0 + n as u32); // header id: made right after the n elements
                    tolerated.extend(ids.iter().take(k as usize - 1));
                }
                st.counts.bump("faults.iter.propagated");
            }
        }
        end(&what, id0, &tolerated, if site == 3 { 0 } else { 1 })?;
        st.cases
            .insert(hash64(&format!("iter|{}|{}|{}", site, n, k)));
        if st.sample.len() < 14 && st.cases.len() % 7 == 1 {
            st.sample.push(format!("{} -> {}", what, if fired { "panic propagated; survivors and tolerated half-built block checked" } else { "completed; contents checked" }));
        }
        st.counts.bump("faults.iter.runs");
        if !fired {
            break;
        }
        k += 1;
        if k > n as u64 + 8 {
            return viol(
                "C07",
                "faults",
                format!(
                    "{} n={}: next() was called more than {} times",
                    ITER_NAMES[site], n, k
                ),
            );
        }
    }
    Ok(())
}

/// Lying iterators: (reported, actual) pairs and answers that change between calls.
pub fn iter_lies(site: usize, actual: usize, report: Vec<usize>, st: &mut FStats) -> R {
    let what = format!(
        "{} actual={} reported={:?}",
        ITER_NAMES[site], actual, report
    );
    let id0 = begin();
    let truthful = report.iter().all(|r| *r == actual);
    let (it, ids) = shadow::tracked(|| fit(actual, 0, report.clone(), site != 3));
    let r = shadow::tracked(|| catch(|| build(site, it)));
    let mut tolerated: Vec<u32> = Vec::new();
    match r {
        Ok(b) => {
            if truthful {
                check_built(&what, &b, &ids)?;
            } else {
                // a lying iterator may be answered with a panic or with a valid result; never with
                // a result exposing slots that were not written or elements it did not yield
                check_built_valid(&what, &b, &ids)?;
            }
            shadow::tracked(|| drop(b));
            st.counts.bump(if truthful {
                "faults.lie.truthful-completed"
            } else {
                "faults.lie.completed-validly"
            });
        }
        Err(_) => {
            ensure!(
                !truthful,
                "C07",
                "faults",
                "{}: panicked on a truthful iterator",
                what
            );
            tolerated.push(id0 + actual as u32);
            tolerated.extend(ids.iter());
            st.counts.bump("faults.lie.propagated");
        }
    }
    end(&what, id0, &tolerated, if site == 3 { 0 } else { 1 })?;
    st.cases
        .insert(hash64(&format!("lie|{}|{}|{:?}", site, actual, report)));
    if st.sample.len() < 14 && st.cases.len() % 29 == 1 {
        st.sample.push(format!("{} -> result valid or panic propagated", what));
    }
    st.counts.bump("faults.lie.runs");
    Ok(())
}

// ---------------------------------------------------------------------------------------------
// B. Clone::clone inside make_mut / make_unique / unwrap_or_clone / OffsetArc::make_mut

pub const CLONE_SITES: usize = 4;
const CLONE_NAMES: [&str; CLONE_SITES] = [
    "Arc::make_mut",
    "Arc::make_unique",
    "Arc::unwrap_or_clone",
    "OffsetArc::make_mut",
];
pub const CO_KINDS: usize = 4;
const CO_NAMES: [&str; CO_KINDS] = ["Arc", "OffsetArc", "ArcUnion", "raw"];

enum Co {
    Arc(Arc<Multi>),
    Off(OffsetArc<Multi>),
    Un(ArcUnion<Multi, u64>),
    Raw(*const Multi),
}
fn co_of(x: &Arc<Multi>, kind: usize) -> Co {
    match kind {
        0 => Co::Arc(x.clone()),
        1 => Co::Off(Arc::into_raw_offset(x.clone())),
        2 => Co::Un(ArcUnion::from_first(x.clone())),
        _ => Co::Raw(Arc::into_raw(x.clone())),
    }
}
fn co_view(c: &Co) -> (&Multi, usize) {
    match c {
        Co::Arc(a) => (&**a, Arc::count(a)),
        Co::Off(o) => (&**o, OffsetArc::strong_count(o)),
        Co::Un(u) => (
            unsafe { &*(u.as_first().unwrap().get() as *const Multi) },
            ArcUnion::strong_count(u),
        ),
        Co::Raw(p) => (unsafe { &**p }, unsafe {
            triomphe::ArcBorrow::strong_count(&triomphe::ArcBorrow::from_ptr(*p))
        }),
    }
}
fn co_drop(c: Co) {
    match c {
        Co::Raw(p) => drop(unsafe { Arc::from_raw(p) }),
        Co::Arc(a) => drop(a),
        Co::Off(o) => drop(o),
        Co::Un(u) => drop(u),
    }
}

pub fn clone_panics(site: usize, co_kind: usize, st: &mut FStats) -> R {
    // one clone of Multi = 3 callback invocations
    let calls = 3u64;
    for k in 1..=calls + 1 {
        let what = format!(
            "{} with a co-owning {}: panic at Clone::clone call {}",
            CLONE_NAMES[site], CO_NAMES[co_kind], k
        );
        let id0 = begin();
        let x: Arc<Multi> = shadow::tracked(|| Arc::new(Multi::make(20)));
        let orig = x.ids();
        let co = shadow::tracked(|| co_of(&x, co_kind));
        let block = x.heap_ptr() as usize;
        tk::clone_panic_at(k as i64);
        let mut x_opt = Some(x);
        let mut off: Option<OffsetArc<Multi>> = None;
        let mut got: Option<Multi> = None;
        let r = shadow::tracked(|| {
            catch(|| match site {
                0 => {
                    Arc::make_mut(x_opt.as_mut().unwrap()).a.set_tag(77);
                }
                1 => {
                    Arc::make_unique(x_opt.as_mut().unwrap()).a.set_tag(77);
                }
                2 => {
                    got = Some(Arc::unwrap_or_clone(x_opt.take().unwrap()));
                }
                _ => {
                    off = Some(Arc::into_raw_offset(x_opt.take().unwrap()));
                    off.as_mut().unwrap().make_mut().a.set_tag(77);
                }
            })
        });
        tk::clone_panic_at(0);
        let panicked = r.is_err();
        ensure!(
            panicked == (k <= calls),
            "C07",
            "faults",
            "{}: panicked={} unexpectedly",
            what,
            panicked
        );
        if let (Co::Arc(a), true) = (&co, panicked && site != 2) {
            // two owning handles exist: no uniqueness-gated API may grant access through the co-owner
            ensure!(
                !a.is_unique(),
                "C03,C07",
                "faults",
                "{}: is_unique on the co-owner is true although the calling handle is still alive",
                what
            );
        }
        // the co-owner always survives: it must see the original, intact, and an accurate count
        let (cv, ccount) = co_view(&co);
        if let Err(m) = cv.check() {
            return viol(
                "C07",
                "faults",
                format!("{}: the co-owner's value: {}", what, m),
            );
        }
        ensure!(
            cv.ids() == orig && cv.a.tag() == 20,
            "C07,C08",
            "faults",
            "{}: the co-owner no longer sees the original value",
            what
        );
        let survivors_on_orig = if panicked {
            // unwrap_or_clone consumed its handle (released during unwinding); the others keep theirs
            if site == 2 {
                1
            } else {
                2
            }
        } else {
            1
        };
        ensure!(
            ccount == survivors_on_orig,
            if site == 2 { "C07,C04,C09" } else { "C07,C04,C08" },
            "faults",
            "{}: the original allocation reports count {} but {} owning handles survive",
            what,
            ccount,
            survivors_on_orig
        );
        if panicked {
            if let Some(x) = &x_opt {
                ensure!(
                    x.heap_ptr() as usize == block && x.ids() == orig && x.check().is_ok(),
                    "C07,C08",
                    "faults",
                    "{}: the calling handle no longer refers to the intact original",
                    what
                );
            }
            if let Some(o) = &off {
                ensure!(
                    o.ids() == orig && o.check().is_ok() && OffsetArc::strong_count(o) == 2,
                    "C07,C08",
                    "faults",
                    "{}: the OffsetArc no longer refers to the intact original",
                    what
                );
            }
            ensure!(
                got.is_none(),
                "C07",
                "faults",
                "{}: a value came back although the clone panicked",
                what
            );
            st.counts.bump("faults.clone.propagated");
        } else {
            st.counts.bump("faults.clone.completed");
        }
        shadow::tracked(|| {
            drop(x_opt);
            drop(off);
            drop(got);
            co_drop(co);
        });
        end(&what, id0, &[], 0)?;
        st.cases
            .insert(hash64(&format!("clone|{}|{}|{}", site, co_kind, k)));
        if st.sample.len() < 14 && st.cases.len() % 5 == 1 {
            st.sample.push(format!("{} -> {}", what, if panicked { "panic propagated; counts, co-owner view, uniqueness verdict checked" } else { "completed" }));
        }
    }
    st.counts.add("faults.clone.runs", calls + 1);
    Ok(())
}

// ---------------------------------------------------------------------------------------------
// C. closures given to with_arc / with_arc_mut / with_raw_offset_arc

pub const CLOSURE_SITES: usize = 9;
const CLOSURE_NAMES: [&str; CLOSURE_SITES] = [
    "ThinArc::with_arc",
    "OffsetArc::with_arc",
    "ArcBorrow::with_arc",
    "Arc::with_raw_offset_arc",
    "ThinArc::with_arc_mut (panic before touching)",
    "ThinArc::with_arc_mut (panic after mutating)",
    "ThinArc::with_arc_mut (panic after replacing)",
    "ThinArc::with_arc_mut (panic after cloning)",
    "ThinArc::with_arc (panic after cloning)",
];

pub fn closure_panics(site: usize, shared: bool, st: &mut FStats) -> R {
    let what = format!("{} shared={}", CLOSURE_NAMES[site], shared);
    let id0 = begin();
    let want = if shared { 2 } else { 1 };
    match site {
        0 | 4 | 5 | 6 | 7 | 8 => {
            let mut t: ThinArc<T8, T8> = shadow::tracked(|| {
                ThinArc::from_header_and_iter(T8::make(1), fit(3, 0, vec![], true).0)
            });
            let co = if shared {
                Some(shadow::tracked(|| t.clone()))
            } else {
                None
            };
            let other: ThinArc<T8, T8> = shadow::tracked(|| {
                ThinArc::from_header_and_iter(T8::make(2), fit(2, 0, vec![], true).0)
            });
            let other_heap = other.heap_ptr() as usize;
            let t_heap = t.heap_ptr() as usize;
            let mut repl = Some(Arc::protected_from_thin(other));
            let r = shadow::tracked(|| {
                catch(|| match site {
                    0 => t.with_arc(|_a| -> () { panic!("closure panics") }),
                    8 => t.with_arc(|a| -> () {
                        let _c = a.clone();
                        panic!("closure panics")
                    }),
                    4 => t.with_arc_mut(|_a| -> () { panic!("closure panics") }),
                    5 => t.with_arc_mut(|a| -> () {
                        if let Some(m) = Arc::get_mut(a) {
                            m.header_mut().set_tag(50);
                        }
                        panic!("closure panics")
                    }),
                    6 => t.with_arc_mut(|a| -> () {
                        *a = repl.take().unwrap();
                        panic!("closure panics")
                    }),
                    _ => t.with_arc_mut(|a| -> () {
                        let _c = a.clone();
                        panic!("closure panics")
                    }),
                })
            });
            ensure!(
                r.is_err(),
                "C07",
                "faults",
                "{}: the panic was swallowed",
                what
            );
            if site == 6 {
                ensure!(
                    t.heap_ptr() as usize == other_heap,
                    "C07,C10",
                    "faults",
                    "{}: the ThinArc does not point at the replacement",
                    what
                );
                ensure!(
                    ThinArc::strong_count(&t) == 1,
                    "C07,C04",
                    "faults",
                    "{}: the replacement reports count {}",
                    what,
                    ThinArc::strong_count(&t)
                );
                if let Some(c) = &co {
                    ensure!(
                        ThinArc::strong_count(c) == 1 && c.heap_ptr() as usize == t_heap,
                        "C07,C10",
                        "faults",
                        "{}: the old allocation was not released exactly once (count {})",
                        what,
                        ThinArc::strong_count(c)
                    );
                }
            } else {
                ensure!(
                    t.heap_ptr() as usize == t_heap,
                    "C07",
                    "faults",
                    "{}: the ThinArc moved",
                    what
                );
                ensure!(
                    ThinArc::strong_count(&t) == want,
                    "C07,C04",
                    "faults",
                    "{}: count {} after the panic, {} handles alive",
                    what,
                    ThinArc::strong_count(&t),
                    want
                );
            }
            ensure!(
                t.header.header.check().is_ok()
                    && t.slice.iter().all(|e| e.check().is_ok())
                    && t.header.length == t.slice.len(),
                "C07",
                "faults",
                "{}: contents damaged",
                what
            );
            shadow::tracked(|| {
                drop(t);
                drop(co);
                drop(repl);
            });
        }
        1 | 2 | 3 => {
            let a: Arc<Multi> = shadow::tracked(|| Arc::new(Multi::make(5)));
            let co = if shared {
                Some(shadow::tracked(|| a.clone()))
            } else {
                None
            };
            let r = shadow::tracked(|| {
                catch(|| match site {
                    1 => {
                        let o = Arc::into_raw_offset(a.clone());
                        o.with_arc(|x| -> () {
                            let _c = x.clone();
                            panic!("closure panics")
                        })
                    }
                    2 => a.borrow_arc().with_arc(|x| -> () {
                        let _c = x.clone();
                        panic!("closure panics")
                    }),
                    _ => a.with_raw_offset_arc(|o| -> () {
                        let _c = o.clone();
                        panic!("closure panics")
                    }),
                })
            });
            ensure!(
                r.is_err(),
                "C07",
                "faults",
                "{}: the panic was swallowed",
                what
            );
            ensure!(
                Arc::count(&a) == want && a.check().is_ok(),
                "C07,C04",
                "faults",
                "{}: count {} after the panic, {} handles alive",
                what,
                Arc::count(&a),
                want
            );
            shadow::tracked(|| {
                drop(a);
                drop(co);
            });
        }
        _ => unreachable!(),
    }
    end(&what, id0, &[], 0)?;
    st.counts.bump("faults.closure.runs");
    st.cases
        .insert(hash64(&format!("closure|{}|{}", site, shared)));
    if st.sample.len() < 14 && site % 3 == 0 {
        st.sample.push(format!("{} -> panic propagated; counts and contents checked", what));
    }
    Ok(())
}

// ---------------------------------------------------------------------------------------------
// D. comparison / hash / format callbacks reached through every handle kind

pub const CMP_HANDLES: usize = 7;
const CMP_HNAMES: [&str; CMP_HANDLES] = [
    "Arc",
    "OffsetArc",
    "ArcBorrow",
    "ArcUnion",
    "ThinArc",
    "Arc<HeaderSlice<H,[T]>>",
    "Arc<HeaderSlice<HeaderWithLength<H>,[T]>>",
];
pub const CMP_OPS: usize = 6;
const CMP_ONAMES: [&str; CMP_OPS] = ["eq", "ne", "partial_cmp", "cmp", "hash", "Debug"];

/// returns the number of callback invocations performed (when no panic was armed)
fn cmp_call(
    h: usize,
    op: usize,
    x: &Arc<Multi>,
    y: &Arc<Multi>,
    tx: &ThinArc<T8, T8>,
    ty: &ThinArc<T8, T8>,
) -> bool {
    let mut hs = std::collections::hash_map::DefaultHasher::new();
    match h {
        0 => match op {
            0 => {
                let _ = x == y;
            }
            1 => {
                let _ = x != y;
            }
            2 => {
                let _ = x.partial_cmp(y);
            }
            3 => {
                let _ = x.cmp(y);
            }
            4 => x.hash(&mut hs),
            _ => {
                let _ = format!("{:?}", x);
            }
        },
        1 => {
            let ox = Arc::into_raw_offset(x.clone());
            let oy = Arc::into_raw_offset(y.clone());
            match op {
                0 => {
                    let _ = ox == oy;
                }
                1 => {
                    let _ = ox != oy;
                }
                5 => {
                    let _ = format!("{:?}", ox);
                }
                _ => return false,
            }
        }
        2 => match op {
            0 => {
                let _ = x.borrow_arc() == y.borrow_arc();
            }
            1 => {
                let _ = x.borrow_arc() != y.borrow_arc();
            }
            5 => {
                let _ = format!("{:?}", x.borrow_arc());
            }
            _ => return false,
        },
        3 => {
            let ux: ArcUnion<Multi, Multi> = ArcUnion::from_first(x.clone());
            let uy: ArcUnion<Multi, Multi> = ArcUnion::from_first(y.clone());
            match op {
                0 => {
                    let _ = ux == uy;
                }
                1 => {
                    let _ = ux != uy;
                }
                5 => {
                    let _ = format!("{:?}", ux);
                }
                _ => return false,
            }
        }
        4 => match op {
            0 => {
                let _ = tx == ty;
            }
            1 => {
                let _ = tx != ty;
            }
            2 => {
                let _ = tx.partial_cmp(ty);
            }
            3 => {
                let _ = tx.cmp(ty);
            }
            4 => tx.hash(&mut hs),
            _ => {
                let _ = format!("{:?}", tx);
            }
        },
        5 | 6 => {
            // built fresh each time so that the handles under test are the fat header-slice Arcs
            return false;
        }
        _ => return false,
    }
    true
}

pub fn cmp_panics(h: usize, op: usize, st: &mut FStats) -> R {
    let base = format!("{} through {}", CMP_ONAMES[op], CMP_HNAMES[h]);
    // discover the number of callbacks
    let mut calls = 0u64;
    let mut k = 0u64; // k == 0: counting run
    loop {
        let what = format!("{}: panic at callback {}", base, k);
        let id0 = begin();
        let x: Arc<Multi> = shadow::tracked(|| Arc::new(Multi::make(30)));
        let y: Arc<Multi> = shadow::tracked(|| Arc::new(Multi::make(30)));
        let tx: ThinArc<T8, T8> = shadow::tracked(|| {
            ThinArc::from_header_and_iter(T8::make(3), fit(2, 0, vec![], true).0)
        });
        let ty: ThinArc<T8, T8> = shadow::tracked(|| {
            ThinArc::from_header_and_iter(T8::make(3), fit(2, 0, vec![], true).0)
        });
        let fx =
            shadow::tracked(|| Arc::from_header_and_iter(T8::make(3), fit(2, 0, vec![], true).0));
        let fy =
            shadow::tracked(|| Arc::from_header_and_iter(T8::make(3), fit(2, 0, vec![], true).0));
        let lx = shadow::tracked(|| {
            Arc::from_header_and_iter(
                HeaderWithLength::new(T8::make(3), 2),
                fit(2, 0, vec![], true).0,
            )
        });
        let ly = shadow::tracked(|| {
            Arc::from_header_and_iter(
                HeaderWithLength::new(T8::make(3), 2),
                fit(2, 0, vec![], true).0,
            )
        });
        let c0 = tk::cb_calls();
        tk::cb_panic_at(k as i64);
        let mut applicable = true;
        let r = shadow::tracked(|| {
            catch(|| {
                if h < 5 {
                    applicable = cmp_call(h, op, &x, &y, &tx, &ty);
                } else {
                    let mut hs = std::collections::hash_map::DefaultHasher::new();
                    macro_rules! ops {
                        ($a:expr, $b:expr) => {
                            match op {
                                0 => {
                                    let _ = $a == $b;
                                }
                                1 => {
                                    let _ = $a != $b;
                                }
                                2 => {
                                    let _ = $a.partial_cmp(&$b);
                                }
                                3 => {
                                    let _ = $a.cmp(&$b);
                                }
                                4 => $a.hash(&mut hs),
                                _ => {
                                    let _ = format!("{:?}", $a);
                                }
                            }
                        };
                    }
                    if h == 5 {
                        ops!(fx, fy)
                    } else {
                        ops!(lx, ly)
                    }
                }
            })
        });
        tk::cb_panic_at(0);
        let made = tk::cb_calls() - c0;
        if !applicable {
            shadow::tracked(|| {
                drop((x, y, tx, ty, fx, fy, lx, ly));
            });
            tk::reset_range(id0);
            return Ok(());
        }
        if k == 0 {
            calls = made;
            ensure!(
                r.is_ok(),
                "C07",
                "faults",
                "{}: panicked without an injected fault",
                what
            );
        } else {
            ensure!(
                r.is_err() == (k <= calls),
                "C07",
                "faults",
                "{}: panicked={} with {} callbacks in the unfaulted run",
                what,
                r.is_err(),
                calls
            );
            st.counts.bump(if r.is_err() {
                "faults.cmp.propagated"
            } else {
                "faults.cmp.completed"
            });
        }
        // every handle survives, with count 1 and intact contents
        ensure!(
            Arc::count(&x) == 1
                && Arc::count(&y) == 1
                && ThinArc::strong_count(&tx) == 1
                && ThinArc::strong_count(&ty) == 1
                && Arc::count(&fx) == 1
                && Arc::count(&lx) == 1,
            match h {
                3 => "C07,C04,C12",
                4 => "C07,C04,C10",
                _ => "C07,C04",
            },
            "faults",
            "{}: a count moved: {} {} {} {} {} {}",
            what,
            Arc::count(&x),
            Arc::count(&y),
            ThinArc::strong_count(&tx),
            ThinArc::strong_count(&ty),
            Arc::count(&fx),
            Arc::count(&lx)
        );
        ensure!(
            x.check().is_ok()
                && y.check().is_ok()
                && tx.slice.iter().all(|e| e.check().is_ok())
                && fx.slice.iter().all(|e| e.check().is_ok()),
            "C07",
            "faults",
            "{}: contents damaged",
            what
        );
        shadow::tracked(|| {
            drop((x, y, tx, ty, fx, fy, lx, ly));
        });
        end(&what, id0, &[], 0)?;
        st.cases.insert(hash64(&format!("cmp|{}|{}|{}", h, op, k)));
        if st.sample.len() < 14 && st.cases.len() % 11 == 1 {
            st.sample.push(format!("{} -> counts and contents of every handle checked", what));
        }
        k += 1;
        if k > calls + 1 {
            break;
        }
    }
    st.counts.add("faults.cmp.runs", calls + 1);
    Ok(())
}

// ---------------------------------------------------------------------------------------------
// allocation failure: run in a child process; the n-th tracked allocation returns null

pub const ALLOC_SITES: usize = 12;
pub const ALLOC_NAMES: [&str; ALLOC_SITES] = [
    "Arc::new",
    "Arc::from(Box)",
    "UniqueArc::new_uninit",
    "Arc::new_uninit_slice",
    "Arc::from_header_and_iter",
    "Arc::from_header_and_slice",
    "Arc::from_header_and_vec",
    "ThinArc::from_header_and_iter",
    "FromIterator(inexact)",
    "UniqueArc::from_header_and_uninit_slice",
    "Arc::make_mut(shared)",
    "Arc::from(&str)",
];

/// Child side. Prints ARMED, performs the call with the `nth` allocation failing, prints DONE.
pub fn alloc_child(site: usize, nth: i64) -> i32 {
    use std::io::Write;
    shadow::enable(true);
    let pre: Arc<u64> = Arc::new(5);
    let mut shared = pre.clone();
    let items: Vec<u32> = (0..40).collect();
    let boxed = Box::new([7u64; 8]);
    println!("ARMED site={} nth={}", ALLOC_NAMES[site], nth);
    let _ = std::io::stdout().flush();
    shadow::tracked(|| {
        shadow::fail_after(nth);
        match site {
            0 => drop(Arc::new([1u64; 16])),
            1 => drop(Arc::<[u64; 8]>::from(boxed)),
            2 => drop(UniqueArc::<[u64; 9]>::new_uninit()),
            3 => drop(Arc::<[std::mem::MaybeUninit<u64>]>::new_uninit_slice(33)),
            4 => drop(Arc::from_header_and_iter(1u32, items.iter().copied())),
            5 => drop(Arc::from_header_and_slice(1u32, &items[..])),
            6 => drop(Arc::from_header_and_vec(1u32, items.clone())),
            7 => drop(ThinArc::from_header_and_iter(1u32, items.iter().copied())),
            8 => drop(items.iter().copied().filter(|_| true).collect::<Arc<[u32]>>()),
            9 => drop(UniqueArc::<HeaderSlice<u8, [std::mem::MaybeUninit<u16>]>>::from_header_and_uninit_slice(1, 50)),
            10 => {
                *Arc::make_mut(&mut shared) = 6;
            }
            _ => drop(Arc::<str>::from("some string contents")),
        }
        shadow::fail_after(0);
    });
    println!("DONE");
    let _ = std::io::stdout().flush();
    0
}

/// Parent side (M5): run children with the n-th allocation failing until a child reaches DONE.
pub fn alloc_failures(site: usize, st: &mut FStats) -> R {
    let exe = std::env::current_exe().map_err(|e| Viol {
        props: "",
        oracle: "harness",
        msg: format!("current_exe: {}", e),
    })?;
    for nth in 1..=8i64 {
        let out = std::process::Command::new(&exe)
            .args([
                "allocchild",
                &format!("site={}", site),
                &format!("nth={}", nth),
            ])
            .output()
            .map_err(|e| Viol {
                props: "",
                oracle: "harness",
                msg: format!("spawn: {}", e),
            })?;
        let so = String::from_utf8_lossy(&out.stdout).to_string();
        let se = String::from_utf8_lossy(&out.stderr).to_string();
        let what = format!("{}: allocation #{} fails", ALLOC_NAMES[site], nth);
        use std::os::unix::process::ExitStatusExt;
        ensure!(
            so.contains("ARMED"),
            "",
            "harness",
            "{}: child did not start: {} {}",
            what,
            so,
            se
        );
        if so.contains("DONE") {
            ensure!(
                out.status.success(),
                "C07",
                "alloc-failure",
                "{}: child finished the call but exited with {:?}",
                what,
                out.status
            );
            st.counts.bump("faults.alloc.no-more-allocations");
            break;
        }
        match out.status.signal() {
            Some(6) => {
                ensure!(
                    se.contains("memory allocation of"),
                    "C07",
                    "alloc-failure",
                    "{}: aborted, but not through the allocation-error path: {}",
                    what,
                    se.lines().last().unwrap_or("")
                );
                st.counts.bump("faults.alloc.aborted-via-alloc-error");
            }
            Some(sig) => {
                return viol("C07", "alloc-failure", format!("{}: the process died with signal {} instead of reporting the allocation failure", what, sig));
            }
            None => {
                return viol(
                    "C07",
                    "alloc-failure",
                    format!(
                        "{}: the process exited with {:?} without finishing the call: {}",
                        what,
                        out.status.code(),
                        se.lines().last().unwrap_or("")
                    ),
                );
            }
        }
        st.cases.insert(hash64(&format!("alloc|{}|{}", site, nth)));
    }
    Ok(())
}

// ---------------------------------------------------------------------------------------------
// E. a panicking payload destructor at the last release: the value is destroyed once and the
//    block must still be returned (the handle's release must not lose the deallocation on unwind)

pub const DROP_SITES: usize = 5;
const DROP_NAMES: [&str; DROP_SITES] = ["Arc<T>", "OffsetArc<T>", "ThinArc (element k of n)", "Arc<[T]> (element k of n)", "UniqueArc::into_inner -> drop value"];

pub fn drop_panics(site: usize, k: i64, st: &mut FStats) -> R {
    use crate::tk::TD;
    let what = format!("{}: destructor #{} panics at the last release", DROP_NAMES[site], k);
    let id0 = begin();
    enum Hd {
        A(Arc<TD>),
        O(OffsetArc<TD>),
        T(ThinArc<u32, TD>),
        S(Arc<[TD]>),
        V(TD),
    }
    let (h, block) = shadow::tracked(|| match site {
        0 => {
            let a = Arc::new(TD::make(1));
            let b = a.heap_ptr() as usize;
            (Hd::A(a), b)
        }
        1 => {
            let a = Arc::new(TD::make(1));
            let b = a.heap_ptr() as usize;
            (Hd::O(Arc::into_raw_offset(a)), b)
        }
        2 => {
            let v: Vec<TD> = (0..3).map(|i| TD::make(i)).collect();
            let t = ThinArc::from_header_and_iter(9u32, v.into_iter());
            let b = t.heap_ptr() as usize;
            (Hd::T(t), b)
        }
        3 => {
            let a: Arc<[TD]> = (0..3).map(|i| TD::make(i)).collect::<Vec<_>>().into();
            let b = a.heap_ptr() as usize;
            (Hd::S(a), b)
        }
        _ => {
            let u = UniqueArc::new(TD::make(1));
            let b = u.clone_block_addr();
            (Hd::V(UniqueArc::into_inner(u)), b)
        }
    });
    tk::drop_panic_at(k);
    let r = shadow::tracked(|| {
        catch(|| match h {
            Hd::A(a) => drop(a),
            Hd::O(o) => drop(o),
            Hd::T(t) => drop(t),
            Hd::S(s) => drop(s),
            Hd::V(v) => drop(v),
        })
    });
    tk::drop_panic_at(0);
    let n = if site == 2 || site == 3 { 3 } else { 1 };
    ensure!(r.is_err() == (k <= n), "C07", "faults", "{}: panicked={} unexpectedly", what, r.is_err());
    if shadow::active() && block != 0 {
        ensure!(
            shadow::live_layout(block).is_none(),
            "C01,C07,C05",
            "faults",
            "{}: the block was not returned to the allocator although its last owner is gone",
            what
        );
    }
    // every value is destroyed exactly once even though one destructor unwound
    end(&what, id0, &[], 0).map_err(|mut v| {
        v.props = "C01,C07";
        v
    })?;
    st.counts.bump("faults.drop.runs");
    st.cases.insert(hash64(&format!("drop|{}|{}", site, k)));
    Ok(())
}

trait BlockAddr {
    fn clone_block_addr(&self) -> usize;
}
impl<T> BlockAddr for UniqueArc<T> {
    fn clone_block_addr(&self) -> usize {
        // the value lives right after the count (payload alignment <= 8 here)
        (&**self as *const T as usize) - std::mem::size_of::<usize>()
    }
}

// ---------------------------------------------------------------------------------------------
// F. payloads without drop glue: Clone must still be what produces copies (no bit-copy shortcuts)

pub fn nodrop_cases(st: &mut FStats) -> R {
    // size classes: 16 bytes, exactly 64, 72, 272
    nodrop_cases_n::<0>(st)?;
    nodrop_cases_n::<6>(st)?;
    nodrop_cases_n::<7>(st)?;
    nodrop_cases_n::<32>(st)
}

fn nodrop_cases_n<const N: usize>(st: &mut FStats) -> R {
    type ND<const M: usize> = crate::tk::ND<M>;
    shadow::reset();
    // unwrap_or_clone: sole owner moves (0 clones, same serial), shared clones exactly once (new serial)
    let a = shadow::tracked(|| Arc::new(ND::<N>::make(5)));
    let s0 = a.serial;
    let c0 = tk::clones();
    let v = shadow::tracked(|| Arc::unwrap_or_clone(a));
    ensure!(tk::clones() == c0 && v.serial == s0, "C09", "unwrap", "unwrap_or_clone of a solely owned no-drop-glue value made {} clones (serial {} -> {})", tk::clones() - c0, s0, v.serial);
    let a = shadow::tracked(|| Arc::new(ND::<N>::make(6)));
    let b = shadow::tracked(|| a.clone());
    let s0 = a.serial;
    let c0 = tk::clones();
    let v = shadow::tracked(|| Arc::unwrap_or_clone(a));
    ensure!(
        tk::clones() == c0 + 1 && v.serial != s0 && v.tag == 6,
        "C09",
        "unwrap",
        "unwrap_or_clone of a shared no-drop-glue value made {} Clone::clone calls and returned serial {} (original {}): the copy was not produced by Clone",
        tk::clones() - c0,
        v.serial,
        s0
    );
    ensure!(Arc::count(&b) == 1 && b.serial == s0, "C09,C04", "unwrap", "unwrap_or_clone did not release exactly one owner");
    // try_unwrap declines while shared, then succeeds
    let b2 = shadow::tracked(|| b.clone());
    let r = shadow::tracked(|| Arc::try_unwrap(b2));
    ensure!(r.is_err(), "C09,C03", "unwrap", "try_unwrap moved a shared no-drop-glue value out");
    drop(r);
    // make_mut: shared copies with exactly one Clone; sole owner does not clone
    let mut m = shadow::tracked(|| b.clone());
    let c0 = tk::clones();
    shadow::tracked(|| Arc::make_mut(&mut m).tag = 9);
    ensure!(tk::clones() == c0 + 1 && m.serial != s0 && b.tag == 6 && m.tag == 9, "C08", "cow", "make_mut on a shared no-drop-glue value made {} clones", tk::clones() - c0);
    let c0 = tk::clones();
    shadow::tracked(|| Arc::make_mut(&mut m).tag = 10);
    ensure!(tk::clones() == c0, "C08", "cow", "make_mut on a solely owned no-drop-glue value cloned it");
    let mut o = shadow::tracked(|| Arc::into_raw_offset(b.clone()));
    let c0 = tk::clones();
    shadow::tracked(|| o.make_mut().tag = 11);
    ensure!(tk::clones() == c0 + 1 && b.tag == 6 && o.tag == 11, "C08", "cow", "OffsetArc::make_mut on a shared no-drop-glue value made {} clones", tk::clones() - c0);
    shadow::tracked(|| {
        drop(o);
        drop(m);
        drop(b);
    });
    if shadow::active() {
        ensure!(shadow::live_count() == 0, "C01", "live", "blocks left behind by the no-drop-glue cases");
    }
    st.counts.bump("faults.nodrop.runs");
    st.cases.insert(hash64(&format!("nodrop{}", N)));
    Ok(())
}

// ---------------------------------------------------------------------------------------------
// G. copy-on-write whose release of the old handle runs a panicking destructor: the Clone impl lets go of the only
// sibling, so the handle being replaced has become the last owner of the old value by the time make_mut / make_unique
// releases it; that value's destructor panics. Whatever happens, the caller's handle must stay valid.

static SIBLING: std::sync::Mutex<Option<Arc<Sib>>> = std::sync::Mutex::new(None);
static SIB_ALIVE: std::sync::atomic::AtomicI64 = std::sync::atomic::AtomicI64::new(0);
static SIB_DROPS: std::sync::atomic::AtomicI64 = std::sync::atomic::AtomicI64::new(0);
static SIB_PANIC: std::sync::atomic::AtomicBool = std::sync::atomic::AtomicBool::new(false);

pub struct Sib {
    tag: u64,
    magic: u64,
}
impl Sib {
    fn make(tag: u64) -> Sib {
        SIB_ALIVE.fetch_add(1, std::sync::atomic::Ordering::Relaxed);
        Sib { tag, magic: tag ^ 0x51B1_51B1 }
    }
    fn ok(&self) -> bool {
        self.magic == self.tag ^ 0x51B1_51B1
    }
}
impl Clone for Sib {
    fn clone(&self) -> Sib {
        // let go of the sibling handle: the handle being made unique is now the last owner of `self`
        let sib = SIBLING.lock().unwrap_or_else(|e| e.into_inner()).take();
        drop(sib);
        Sib::make(self.tag + 1000)
    }
}
impl Drop for Sib {
    fn drop(&mut self) {
        SIB_ALIVE.fetch_sub(1, std::sync::atomic::Ordering::Relaxed);
        SIB_DROPS.fetch_add(1, std::sync::atomic::Ordering::Relaxed);
        self.magic = 0;
        if SIB_PANIC.swap(false, std::sync::atomic::Ordering::Relaxed) {
            panic!("destructor of the old value panics");
        }
    }
}

pub fn cow_drop_panics(site: usize, st: &mut FStats) -> R {
    use std::sync::atomic::Ordering::Relaxed;
    let what = format!(
        "{}: Clone releases the only sibling, then the old value's destructor panics",
        ["Arc::make_mut", "Arc::make_unique", "OffsetArc::make_mut"][site]
    );
    shadow::reset();
    let alive0 = SIB_ALIVE.load(Relaxed);
    let drops0 = SIB_DROPS.load(Relaxed);
    let mut a = shadow::tracked(|| Arc::new(Sib::make(7)));
    *SIBLING.lock().unwrap_or_else(|e| e.into_inner()) = Some(shadow::tracked(|| a.clone()));
    SIB_PANIC.store(true, Relaxed);
    let mut off: Option<OffsetArc<Sib>> = None;
    let r = shadow::tracked(|| {
        catch(|| match site {
            0 => {
                Arc::make_mut(&mut a).tag += 0;
            }
            1 => {
                let _ = Arc::make_unique(&mut a);
            }
            _ => {
                let mut o = Arc::into_raw_offset(a.clone());
                // the temporary clone above is a second sibling: let it be the one Clone releases last
                off = None;
                let _ = o.make_mut();
                off = Some(o);
            }
        })
    });
    SIB_PANIC.store(false, Relaxed);
    let _ = SIBLING.lock().unwrap_or_else(|e| e.into_inner()).take();
    st.counts.bump(if r.is_err() { "faults.cowdrop.propagated" } else { "faults.cowdrop.completed" });
    // the handle the caller still holds must be valid: readable, a sole owner or not, but alive
    ensure!(a.ok(), "C07,C08,C01", "faults", "{}: the caller's handle reads a destroyed value afterwards", what);
    if let Some(o) = &off {
        ensure!(o.ok(), "C07,C08,C01", "faults", "{}: the OffsetArc reads a destroyed value afterwards", what);
    }
    shadow::tracked(|| {
        drop(off);
        drop(a);
    });
    let made = (SIB_DROPS.load(Relaxed) - drops0) + (SIB_ALIVE.load(Relaxed) - alive0);
    ensure!(
        SIB_ALIVE.load(Relaxed) == alive0 && made >= 1,
        "C07,C08,C01",
        "faults",
        "{}: {} values still alive after every handle was released (each must be destroyed exactly once)",
        what,
        SIB_ALIVE.load(Relaxed) - alive0
    );
    if shadow::active() {
        if let Some(x) = shadow::take_findings().first() {
            return viol("C07,C08,C01", "faults", format!("{}: allocator monitor: {:?}", what, x));
        }
        ensure!(shadow::live_count() == 0, "C07,C08,C01", "faults", "{}: {} blocks left behind", what, shadow::live_count());
    }
    st.counts.bump("faults.cowdrop.runs");
    st.cases.insert(hash64(&format!("cowdrop|{}", site)));
    Ok(())
}

