//! tv: runtime-monitoring harness for triomphe. One binary, one sub-command per engine.
//! Output protocol: lines starting with "@@" are JSON records for the driver (/verif/check).

mod hist;
mod shadow;
mod tk;
mod util;

#[global_allocator]
static GLOBAL: shadow::Shadow = shadow::Shadow;

use util::*;

fn main() {
    let args = Args::parse();
    quiet_panics();
    // the shadow allocator is the allocator oracle only in plain native builds
    let want_shadow = args.u64("shadow", 1) == 1 && !cfg!(miri);
    shadow::enable(want_shadow);
    let code = match args.engine.as_str() {
        "noop" => 0,
        "hist" => engine_hist(&args),
        other => {
            eprintln!("unknown engine {:?}", other);
            2
        }
    };
    std::process::exit(code);
}

fn engine_hist(args: &Args) -> i32 {
    let seed = args.u64("seed", 1);
    let n = args.u64("n", 100);
    let ops = args.u64("ops", 200) as usize;
    let first = args.u64("first", 0);
    let light = args.has("light");
    let mut st = hist::Stats::new();
    let mut nviol = 0;
    let shapes = ["T8", "T32", "TB", "T1", "Z", "T64", "Z16"];
    for k in first..first + n {
        let hseed = seed.wrapping_mul(0x1000_0000).wrapping_add(k);
        let shape = shapes[(k % shapes.len() as u64) as usize];
        let r = match shape {
            "T8" => hist::run_one::<tk::T8>(hseed, ops, light, &mut st),
            "T32" => hist::run_one::<tk::T32>(hseed, ops, light, &mut st),
            "TB" => hist::run_one::<tk::TB>(hseed, ops, light, &mut st),
            "T1" => hist::run_one::<tk::T1>(hseed, ops, light, &mut st),
            "Z" => hist::run_one::<tk::Z>(hseed, ops, light, &mut st),
            "T64" => hist::run_one::<tk::T64>(hseed, ops, light, &mut st),
            _ => hist::run_one::<tk::Z16>(hseed, ops, light, &mut st),
        };
        st.counts.bump(&format!("shape.{}", shape));
        if let Err((v, trace)) = r {
            emit_violation(&v, "hist", seed, &format!("k={} shape={} ops={}", k, shape, ops), &trace);
            nviol += 1;
            if nviol >= 5 {
                break;
            }
        }
    }
    println!(
        "@@{{\"t\":\"stats\",\"engine\":\"hist\",\"counts\":{},\"sets\":{{\"sigs\":{},\"nontrivial_sigs\":{},\"ctx_sigs\":{}}},\"shadow\":{},\"checked_frees\":{},\"overflow\":{},\"sample\":{}}}",
        st.counts.json(),
        jset(&st.sigs),
        jset(&st.nontrivial_sigs),
        jset(&st.ctx_sigs),
        shadow::active(),
        shadow::checked_frees(),
        shadow::overflowed(),
        jlist(&st.sample)
    );
    if nviol > 0 {
        1
    } else {
        0
    }
}
