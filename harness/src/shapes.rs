//! shapes engine: a finite matrix of (header shape, element shape, length) x constructor x
//! release path, observed by the shadow allocator.
//!   layout [C05]  block large/aligned enough, payload inside the block and aligned, freed once
//!                 with the requested layout through every release path; overflow refused.
//!   ptr    [C11]  as_ptr/into_raw/OffsetArc/ArcBorrow/RefCnt pointers == Deref address;
//!                 heap_ptr == allocator block; from_raw round trips; handle widths.
//!   union  [C12]  ArcUnion over ordered pairs of sized shapes.

use crate::ensure;
use crate::shadow;
use crate::tk;
use crate::util::*;
use std::mem::{align_of, align_of_val, size_of, size_of_val, MaybeUninit};
use triomphe::{
    Arc, ArcBorrow, ArcUnion, ArcUnionBorrow, HeaderSlice, HeaderWithLength, OffsetArc, ThinArc,
    UniqueArc,
};

pub trait Sh: Sized + Send + Sync + PartialEq + 'static {
    const NAME: &'static str;
    const COPY: bool = true;
    fn gen(i: u64) -> Self;
    fn ok(&self, i: u64) -> bool;
    /// Arc::from_header_and_slice needs Copy; non-Copy shapes return None.
    fn fat_from_slice<H: Sh>(_h: H, _items: &[Self]) -> Option<Arc<HeaderSlice<H, [Self]>>> {
        None
    }
    fn thin_from_slice<H: Sh>(_h: H, _items: &[Self]) -> Option<ThinArc<H, Self>> {
        None
    }
    fn arc_from_slice(_items: &[Self]) -> Option<Arc<[Self]>> {
        None
    }
}

pub trait ShDyn: Send + Sync {
    fn ok_dyn(&self, i: u64) -> bool;
}
impl<S: Sh> ShDyn for S {
    fn ok_dyn(&self, i: u64) -> bool {
        self.ok(i)
    }
}

macro_rules! copy_ctors {
    () => {
        fn fat_from_slice<H: Sh>(h: H, items: &[Self]) -> Option<Arc<HeaderSlice<H, [Self]>>> {
            Some(Arc::from_header_and_slice(h, items))
        }
        fn thin_from_slice<H: Sh>(h: H, items: &[Self]) -> Option<ThinArc<H, Self>> {
            Some(ThinArc::from_header_and_slice(h, items))
        }
        fn arc_from_slice(items: &[Self]) -> Option<Arc<[Self]>> {
            Some(Arc::from(items))
        }
    };
}

fn pat(i: u64, k: usize) -> u8 {
    (i.wrapping_mul(131)
        .wrapping_add(k as u64 * 7)
        .wrapping_add(3)
        & 0xFF) as u8
}

macro_rules! bytes_shape {
    ($t:ty, $name:literal, $n:expr) => {
        impl Sh for $t {
            const NAME: &'static str = $name;
            fn gen(i: u64) -> Self {
                let mut b = [0u8; $n];
                for k in 0..$n {
                    b[k] = pat(i, k);
                }
                b
            }
            fn ok(&self, i: u64) -> bool {
                (0..$n).all(|k| self[k] == pat(i, k))
            }
            copy_ctors!();
        }
    };
}
bytes_shape!([u8; 3], "[u8;3]", 3);
bytes_shape!([u8; 9], "[u8;9]", 9);
bytes_shape!([u8; 33], "[u8;33]", 33);

macro_rules! int_shape {
    ($t:ty, $name:literal) => {
        impl Sh for $t {
            const NAME: &'static str = $name;
            fn gen(i: u64) -> Self {
                (i.wrapping_mul(0x9E37_79B9_7F4A_7C15) >> 7) as $t
            }
            fn ok(&self, i: u64) -> bool {
                *self == (i.wrapping_mul(0x9E37_79B9_7F4A_7C15) >> 7) as $t
            }
            copy_ctors!();
        }
    };
}
int_shape!(u8, "u8");
int_shape!(u16, "u16");
int_shape!(u64, "u64");

impl Sh for (u64, u8) {
    const NAME: &'static str = "(u64,u8)";
    fn gen(i: u64) -> Self {
        (u64::gen(i), u8::gen(i + 1))
    }
    fn ok(&self, i: u64) -> bool {
        self.0.ok(i) && self.1.ok(i + 1)
    }
    copy_ctors!();
}

impl Sh for () {
    const NAME: &'static str = "()";
    fn gen(_i: u64) -> Self {}
    fn ok(&self, _i: u64) -> bool {
        true
    }
    copy_ctors!();
}

macro_rules! aligned_shape {
    ($t:ident, $name:literal, $al:literal, $n:expr) => {
        #[derive(Clone, Copy, PartialEq)]
        #[repr(C, align($al))]
        pub struct $t(pub [u8; $n]);
        impl Sh for $t {
            const NAME: &'static str = $name;
            fn gen(i: u64) -> Self {
                let mut b = [0u8; $n];
                for k in 0..$n {
                    b[k] = pat(i, k);
                }
                $t(b)
            }
            fn ok(&self, i: u64) -> bool {
                (self as *const Self as usize) % $al == 0 && (0..$n).all(|k| self.0[k] == pat(i, k))
            }
            copy_ctors!();
        }
    };
}
aligned_shape!(A16, "A16", 16, 16);
aligned_shape!(A32, "A32", 32, 32);
aligned_shape!(A64, "A64", 64, 64);

/// zero-sized, over-aligned
#[derive(Clone, Copy, PartialEq)]
#[repr(align(16))]
pub struct ZA16;
impl Sh for ZA16 {
    const NAME: &'static str = "ZA16";
    fn gen(_i: u64) -> Self {
        ZA16
    }
    fn ok(&self, _i: u64) -> bool {
        (self as *const Self as usize) % 16 == 0
    }
    copy_ctors!();
}

/// zero-sized with a destructor (counts only)
impl Sh for tk::Z {
    const NAME: &'static str = "ZD";
    const COPY: bool = false;
    fn gen(_i: u64) -> Self {
        <tk::Z as tk::Pay>::make(0)
    }
    fn ok(&self, _i: u64) -> bool {
        true
    }
}

pub const LENS: [usize; 11] = [0, 1, 2, 3, 7, 8, 9, 31, 32, 33, 255];

pub struct SStats {
    pub counts: Counts,
    pub cases: std::collections::BTreeSet<u64>,
    pub sample: Vec<String>,
}
impl SStats {
    pub fn new() -> Self {
        SStats {
            counts: Counts::default(),
            cases: Default::default(),
            sample: Vec::new(),
        }
    }
}

/// What the allocator must have seen for a payload living at [p, p+size) with alignment `al`.
fn check_block(
    what: &str,
    heap: usize,
    p: usize,
    size: usize,
    al: usize,
) -> R<(usize, usize, usize)> {
    if !shadow::active() {
        ensure!(
            p % al == 0,
            "C05",
            "layout",
            "{}: payload address {:#x} not aligned to {}",
            what,
            p,
            al
        );
        return Ok((heap, 0, 0));
    }
    let (bsize, balign) = match shadow::live_layout(heap) {
        Some(x) => x,
        None => {
            return viol(
                "C05,C11",
                "layout",
                format!(
                    "{}: heap_ptr {:#x} is not a live block handed out by the allocator",
                    what, heap
                ),
            )
        }
    };
    ensure!(
        p % al == 0,
        "C05",
        "layout",
        "{}: payload address {:#x} not aligned to {}",
        what,
        p,
        al
    );
    ensure!(
        balign >= al.max(align_of::<usize>()),
        "C05",
        "layout",
        "{}: block requested with alignment {} but needs {}",
        what,
        balign,
        al.max(align_of::<usize>())
    );
    ensure!(
        p >= heap + size_of::<usize>() && p + size <= heap + bsize,
        "C05",
        "layout",
        "{}: payload [{:#x},+{}) does not fit in block [{:#x},+{}) after the count",
        what,
        p,
        size,
        heap,
        bsize
    );
    Ok((heap, bsize, balign))
}

/// After a release: the block must be gone and the allocator monitor silent.
fn check_released(what: &str, heap: usize) -> R {
    check_released_p(what, heap, "C05,C01")
}

fn check_released_p(what: &str, heap: usize, props: &'static str) -> R {
    if shadow::active() {
        ensure!(
            shadow::live_layout(heap).is_none(),
            props,
            "layout",
            "{}: block {:#x} was not returned to the allocator",
            what,
            heap
        );
    }
    if let Some(f) = shadow::take_findings().first() {
        return viol(
            props,
            "layout",
            format!("{}: allocator monitor: {:?}", what, f),
        );
    }
    let f = tk::take_findings();
    if !f.is_empty() {
        return viol("C05,C01", "layout", format!("{}: {}", what, f.join("; ")));
    }
    Ok(())
}

fn check_val<T: Sh>(what: &str, v: &T, i: u64) -> R {
    ensure!(
        v.ok(i),
        "C05,C06",
        "layout",
        "{}: contents corrupted or misaligned (shape {})",
        what,
        T::NAME
    );
    Ok(())
}

// ---------------------------------------------------------------------------------------------
// family B: header + slice

type Hs<H, T> = HeaderSlice<H, [T]>;

fn check_hs<H: Sh, T: Sh>(what: &str, x: &Hs<H, T>, len: usize, heap: usize) -> R {
    ensure!(
        x.slice.len() == len,
        "C06,C10",
        "layout",
        "{}: slice length {} instead of {}",
        what,
        x.slice.len(),
        len
    );
    check_block(
        what,
        heap,
        x as *const Hs<H, T> as *const u8 as usize,
        size_of_val(x),
        align_of_val(x),
    )?;
    check_val(what, &x.header, 1000)?;
    let hp = &x.header as *const H as usize;
    ensure!(
        hp % align_of::<H>() == 0,
        "C05",
        "layout",
        "{}: header misaligned",
        what
    );
    for (k, e) in x.slice.iter().enumerate() {
        let ep = e as *const T as usize;
        ensure!(
            ep % align_of::<T>() == 0,
            "C05",
            "layout",
            "{}: element {} misaligned",
            what,
            k
        );
        check_val(what, e, k as u64)?;
    }
    Ok(())
}

struct Gen<T: Sh> {
    i: usize,
    n: usize,
    exact: bool,
    _p: std::marker::PhantomData<T>,
}
impl<T: Sh> Iterator for Gen<T> {
    type Item = T;
    fn next(&mut self) -> Option<T> {
        if self.i < self.n {
            self.i += 1;
            Some(T::gen(self.i as u64 - 1))
        } else {
            None
        }
    }
    fn size_hint(&self) -> (usize, Option<usize>) {
        if self.exact {
            (self.n - self.i, Some(self.n - self.i))
        } else {
            (0, None)
        }
    }
}
impl<T: Sh> ExactSizeIterator for Gen<T> {}
fn gen<T: Sh>(n: usize, exact: bool) -> Gen<T> {
    Gen {
        i: 0,
        n,
        exact,
        _p: std::marker::PhantomData,
    }
}

pub const B_CTORS: usize = 7;
pub const B_RELS: usize = 8;

/// One (H, T, len, constructor, release path) case of the header+slice family.
pub fn case_b<H: Sh, T: Sh>(len: usize, ctor: usize, rel: usize, st: &mut SStats) -> R {
    let zst = size_of::<T>() == 0;
    let what = format!(
        "H={} T={} len={} ctor=B{} rel=R{}",
        H::NAME,
        T::NAME,
        len,
        ctor,
        rel
    );
    let z0 = tk::z_live();
    shadow::reset();
    // constructors that go through ThinArc / into_thin need HeaderWithLength
    let mut thin: Option<ThinArc<H, T>> = None;
    let mut fat: Option<Arc<Hs<H, T>>> = None;
    let r = shadow::tracked(|| -> Result<&'static str, String> {
        catch(|| match ctor {
            0 => {
                fat = Some(Arc::from_header_and_iter(H::gen(1000), gen::<T>(len, true)));
                "Arc::from_header_and_iter"
            }
            1 => {
                let items: Vec<T> = gen::<T>(len, true).collect();
                match T::fat_from_slice(H::gen(1000), &items) {
                    Some(a) => {
                        fat = Some(a);
                        "Arc::from_header_and_slice"
                    }
                    None => "skip",
                }
            }
            2 => {
                let mut v: Vec<T> = Vec::with_capacity(len + (len % 3));
                v.extend(gen::<T>(len, true));
                fat = Some(Arc::from_header_and_vec(H::gen(1000), v));
                "Arc::from_header_and_vec"
            }
            3 => {
                let mut u: UniqueArc<HeaderSlice<H, [MaybeUninit<T>]>> =
                    UniqueArc::from_header_and_uninit_slice(H::gen(1000), len);
                for (k, s) in u.slice.iter_mut().enumerate() {
                    s.write(T::gen(k as u64));
                }
                fat = Some(unsafe { u.assume_init_slice_with_header() }.shareable());
                "UniqueArc::from_header_and_uninit_slice+assume_init"
            }
            4 => {
                thin = Some(ThinArc::from_header_and_iter(
                    H::gen(1000),
                    gen::<T>(len, true),
                ));
                "ThinArc::from_header_and_iter"
            }
            5 => {
                let items: Vec<T> = gen::<T>(len, true).collect();
                match T::thin_from_slice(H::gen(1000), &items) {
                    Some(a) => {
                        thin = Some(a);
                        "ThinArc::from_header_and_slice"
                    }
                    None => "skip",
                }
            }
            _ => {
                let f = Arc::from_header_and_vec(
                    HeaderWithLength::new(H::gen(1000), len),
                    gen::<T>(len, true).collect(),
                );
                thin = Some(Arc::into_thin(f));
                "Arc::from_header_and_vec(HeaderWithLength)+into_thin"
            }
        })
    });
    let how = match r {
        Ok(h) => h,
        Err(msg) => {
            // zero-sized element types may be refused up front
            ensure!(
                zst && msg.contains("ZST"),
                "C05,C06",
                "layout",
                "{}: constructor panicked: {}",
                what,
                msg
            );
            ensure!(
                tk::z_live() == z0,
                "C06",
                "layout",
                "{}: refused constructor did not destroy its inputs exactly once",
                what
            );
            st.counts.bump("shapes.b.refused-zst");
            return Ok(());
        }
    };
    if how == "skip" {
        return Ok(());
    }
    st.counts.bump(&format!("shapes.b.ctor:{}", how));
    st.counts.bump(&format!("shapes.b.rel:R{}", rel));
    // observe
    let heap;
    if let Some(f) = &fat {
        heap = f.heap_ptr() as usize;
        check_hs(&what, &**f, len, heap)?;
        ensure!(
            Arc::as_ptr(f) as *const u8 as usize == &**f as *const Hs<H, T> as *const u8 as usize,
            "C11",
            "ptr",
            "{}: as_ptr != Deref address",
            what
        );
    } else {
        let t = thin.as_ref().unwrap();
        heap = t.heap_ptr() as usize;
        ensure!(
            t.header.length == len,
            "C10",
            "thin",
            "{}: recorded length {}",
            what,
            t.header.length
        );
        ensure!(
            t.slice.len() == len,
            "C10,C06",
            "thin",
            "{}: slice length {}",
            what,
            t.slice.len()
        );
        let x = &**t;
        check_block(
            &what,
            heap,
            x as *const _ as *const u8 as usize,
            size_of_val(x),
            align_of_val(x),
        )?;
        check_val(&what, &x.header.header, 1000)?;
        for (k, e) in x.slice.iter().enumerate() {
            ensure!(
                (e as *const T as usize) % align_of::<T>() == 0,
                "C05",
                "layout",
                "{}: element {} misaligned",
                what,
                k
            );
            check_val(&what, e, k as u64)?;
        }
        ensure!(
            size_of::<ThinArc<H, T>>() == size_of::<usize>()
                && size_of::<Option<ThinArc<H, T>>>() == size_of::<usize>(),
            "C11",
            "ptr",
            "ThinArc is not one word with a niche"
        );
    }
    ensure!(
        size_of::<Arc<Hs<H, T>>>() == 2 * size_of::<usize>()
            && size_of::<Option<Arc<Hs<H, T>>>>() == 2 * size_of::<usize>(),
        "C11",
        "ptr",
        "slice Arc is not two words with a niche"
    );
    // release
    let relname = shadow::tracked(|| -> R<&'static str> {
        Ok(match (rel, fat, thin) {
            (0, Some(f), _) => {
                drop(f);
                "drop fat"
            }
            (1, Some(f), _) => {
                let g = f.clone();
                drop(f);
                check_hs(&what, &*g, len, heap)?;
                drop(g);
                "clone, drop original, drop clone"
            }
            (2, Some(f), _) => match Arc::try_unique(f) {
                Ok(u) => {
                    drop(u);
                    "try_unique -> drop UniqueArc"
                }
                Err(_) => {
                    return viol(
                        "C03",
                        "uniq",
                        format!("{}: try_unique declined for a fresh Arc", what),
                    )
                }
            },
            (3, Some(f), _) => {
                // header erasure only exists for H = (): fall back to plain drop otherwise
                drop(f);
                "drop fat"
            }
            (4, Some(f), _) => {
                let mut f = f;
                let _ = Arc::get_mut(&mut f).map(|m| m.slice.len());
                let g = f.clone();
                drop(g);
                drop(f);
                "get_mut, clone+drop, drop"
            }
            (_, Some(f), _) => {
                drop(f);
                "drop fat"
            }
            (0, _, Some(t)) => {
                drop(t);
                "drop thin"
            }
            (1, _, Some(t)) => {
                let f = Arc::from_thin(t);
                ensure!(
                    f.heap_ptr() as usize == heap && f.slice.len() == len && f.header.length == len,
                    "C10",
                    "thin",
                    "{}: thin -> fat changed allocation or length",
                    what
                );
                check_val(&what, &f.header.header, 1000)?;
                for (k, e) in f.slice.iter().enumerate() {
                    check_val(&what, e, k as u64)?;
                }
                drop(f);
                "thin -> fat, drop fat"
            }
            (2, _, Some(t)) => {
                let p = t.into_raw();
                ensure!(
                    p as usize == heap,
                    "C11",
                    "ptr",
                    "{}: ThinArc::into_raw != heap_ptr",
                    what
                );
                let t = unsafe { ThinArc::<H, T>::from_raw(p) };
                ensure!(
                    t.heap_ptr() as usize == heap && t.slice.len() == len && t.header.length == len && ThinArc::strong_count(&t) == 1,
                    "C11,C10",
                    "ptr",
                    "{}: ThinArc::from_raw(into_raw) gave another allocation, length or count",
                    what
                );
                for (k, e) in t.slice.iter().enumerate() {
                    ensure!(e.ok(k as u64), "C11,C10", "ptr", "{}: element {} differs after the raw round trip", what, k);
                }
                drop(t);
                "thin into_raw/from_raw, drop"
            }
            (3, _, Some(t)) => {
                let p = Arc::protected_from_thin(t);
                let t = Arc::protected_into_thin(p);
                let c = t.clone();
                drop(t);
                drop(c);
                "thin -> protected -> thin, clone, drop both"
            }
            (4, _, Some(t)) => {
                let mut t = t;
                let n = t.with_arc_mut(|a| a.slice().len());
                ensure!(
                    n == len,
                    "C10",
                    "thin",
                    "{}: with_arc_mut sees length {}",
                    what,
                    n
                );
                drop(t);
                "with_arc_mut, drop thin"
            }
            (5, _, Some(t)) => {
                #[cfg(feature = "full")]
                {
                    let keep = t.clone();
                    let c: arc_swap::ArcSwapAny<ThinArc<H, T>> = shadow::untracked(|| arc_swap::ArcSwapAny::new(t));
                    ensure!(
                        ThinArc::strong_count(&keep) == 2,
                        "C11,C04",
                        "ptr",
                        "{}: after storing a ThinArc in an arc-swap cell (RefCnt::into_ptr) the count is {} with 2 owners",
                        what,
                        ThinArc::strong_count(&keep)
                    );
                    let g = shadow::untracked(|| c.load_full());
                    drop(g);
                    // the three RefCnt functions must agree on one address (the one from_raw takes), or arc-swap's
                    // debt bookkeeping pays back a reference it never took
                    let ap = <ThinArc<H, T> as arc_swap::RefCnt>::as_ptr(&keep) as usize;
                    ensure!(
                        ap == heap,
                        "C11,C10",
                        "ptr",
                        "{}: RefCnt::as_ptr for ThinArc is {:#x}, into_ptr/from_ptr use the allocation address {:#x}",
                        what,
                        ap,
                        heap
                    );
                    {
                        let g = shadow::untracked(|| c.load());
                        ensure!(
                            g.heap_ptr() as usize == heap && g.slice.len() == len,
                            "C11,C10",
                            "ptr",
                            "{}: an arc-swap load() guard exposes another allocation or length",
                            what
                        );
                        shadow::untracked(|| drop(g));
                    }
                    ensure!(
                        ThinArc::strong_count(&keep) == 2,
                        "C11,C10,C04",
                        "ptr",
                        "{}: after an arc-swap load() guard was released the count is {} with 2 owners",
                        what,
                        ThinArc::strong_count(&keep)
                    );
                    shadow::untracked(|| drop(c));
                    {
                        drop(keep);
                        "arc-swap(ThinArc) new/load_full/load/drop"
                    }
                }
                #[cfg(not(feature = "full"))]
                {
                    drop(t);
                    "drop thin"
                }
            }
            (_, _, Some(t)) => {
                let f = Arc::from_thin(t);
                match Arc::try_unique(f) {
                    Ok(u) => drop(u),
                    Err(_) => {
                        return viol(
                            "C03",
                            "uniq",
                            format!("{}: try_unique declined for a fresh Arc", what),
                        )
                    }
                }
                "thin -> fat -> UniqueArc, drop"
            }
            _ => unreachable!(),
        })
    })?;
    check_released_p(
        &format!("{} ({})", what, relname),
        heap,
        if relname.contains("thin") || relname.contains("ThinArc") {
            "C05,C01,C10"
        } else {
            "C05,C01"
        },
    )?;
    ensure!(
        tk::z_live() == z0,
        "C05,C01,C06",
        "layout",
        "{} ({}): {} zero-sized elements with destructors not destroyed exactly once",
        what,
        relname,
        tk::z_live() - z0
    );
    if shadow::active() {
        let lb = shadow::live_blocks();
        ensure!(
            lb.is_empty(),
            "C05,C01",
            "layout",
            "{} ({}): blocks left behind: {:x?}",
            what,
            relname,
            &lb[..lb.len().min(3)]
        );
    }
    st.cases.insert(hash64(&format!(
        "{}|{}|{}|{}|{}",
        H::NAME,
        T::NAME,
        len,
        how,
        relname
    )));
    if st.sample.len() < 6 {
        st.sample
            .push(format!("{} via {} released by {}", what, how, relname));
    }
    Ok(())
}

// ---------------------------------------------------------------------------------------------
// family C: Arc<[T]> / Arc<str> (header erased)

pub const C_CTORS: usize = 7;
pub const C_RELS: usize = 5;

pub fn case_c<T: Sh>(len: usize, ctor: usize, rel: usize, st: &mut SStats) -> R {
    let zst = size_of::<T>() == 0;
    let what = format!("T={} len={} ctor=C{} rel=R{}", T::NAME, len, ctor, rel);
    let z0 = tk::z_live();
    shadow::reset();
    let mut arc: Option<Arc<[T]>> = None;
    let r = shadow::tracked(|| {
        catch(|| match ctor {
            0 => {
                let mut v: Vec<T> = Vec::with_capacity(len * 2 + 1);
                v.extend(gen::<T>(len, true));
                arc = Some(Arc::from(v));
                "From<Vec<T>>"
            }
            1 => {
                let items: Vec<T> = gen::<T>(len, true).collect();
                match T::arc_from_slice(&items) {
                    Some(a) => {
                        arc = Some(a);
                        "From<&[T]>"
                    }
                    None => "skip",
                }
            }
            2 => {
                arc = Some(gen::<T>(len, true).collect::<Arc<[T]>>());
                "FromIterator(exact)"
            }
            3 => {
                arc = Some(gen::<T>(len, false).collect::<Arc<[T]>>());
                "FromIterator(inexact)"
            }
            4 => {
                let mut a: Arc<[MaybeUninit<T>]> = Arc::new_uninit_slice(len);
                for (k, s) in Arc::get_mut(&mut a).unwrap().iter_mut().enumerate() {
                    s.write(T::gen(k as u64));
                }
                arc = Some(unsafe { a.assume_init() });
                "Arc::new_uninit_slice+assume_init"
            }
            5 => {
                let mut u: UniqueArc<[MaybeUninit<T>]> = UniqueArc::new_uninit_slice(len);
                for (k, s) in u.iter_mut().enumerate() {
                    s.write(T::gen(k as u64));
                }
                arc = Some(unsafe { UniqueArc::assume_init_slice(u) }.shareable());
                "UniqueArc::new_uninit_slice+assume_init_slice"
            }
            _ => {
                let f: Arc<HeaderSlice<(), [T]>> =
                    Arc::from_header_and_vec((), gen::<T>(len, true).collect());
                arc = Some(f.into());
                "from_header_and_vec(()) + From (header erasure)"
            }
        })
    });
    let how = match r {
        Ok(h) => h,
        Err(msg) => {
            ensure!(
                zst && msg.contains("ZST"),
                "C05,C06",
                "layout",
                "{}: constructor panicked: {}",
                what,
                msg
            );
            ensure!(
                tk::z_live() == z0,
                "C06",
                "layout",
                "{}: refused constructor did not destroy its inputs exactly once",
                what
            );
            st.counts.bump("shapes.c.refused-zst");
            return Ok(());
        }
    };
    if how == "skip" {
        return Ok(());
    }
    st.counts.bump(&format!("shapes.c.ctor:{}", how));
    let a = arc.unwrap();
    let heap = a.heap_ptr() as usize;
    let obs = |a: &Arc<[T]>| -> R {
        ensure!(
            a.len() == len,
            "C06",
            "layout",
            "{}: length {}",
            what,
            a.len()
        );
        check_block(
            &what,
            heap,
            (**a).as_ptr() as usize,
            size_of_val(&**a),
            align_of::<T>(),
        )?;
        for (k, e) in a.iter().enumerate() {
            check_val(&what, e, k as u64)?;
        }
        ensure!(
            Arc::as_ptr(a) as *const T as usize == (**a).as_ptr() as usize,
            "C11",
            "ptr",
            "{}: Arc::as_ptr != Deref address",
            what
        );
        Ok(())
    };
    obs(&a)?;
    let relname = shadow::tracked(|| -> R<&'static str> {
        Ok(match rel {
            0 => {
                drop(a);
                "drop"
            }
            1 => {
                let p = Arc::into_raw(a);
                ensure!(
                    p as *const T as usize == unsafe { (*p).as_ptr() } as usize,
                    "C11",
                    "ptr",
                    "{}: into_raw != Deref address",
                    what
                );
                let b = unsafe { Arc::from_raw_slice(p) };
                ensure!(
                    b.heap_ptr() as usize == heap && Arc::count(&b) == 1,
                    "C11",
                    "ptr",
                    "{}: from_raw_slice gave another allocation/count",
                    what
                );
                obs(&b)?;
                drop(b);
                "into_raw -> from_raw_slice, drop"
            }
            2 => {
                let f: Arc<HeaderSlice<(), [T]>> = a.into();
                ensure!(
                    f.heap_ptr() as usize == heap && f.slice.len() == len,
                    "C11,C06",
                    "ptr",
                    "{}: header re-attachment moved the allocation",
                    what
                );
                let b: Arc<[T]> = f.into();
                obs(&b)?;
                drop(b);
                "-> HeaderSlice<(),[T]> -> back, drop"
            }
            3 => {
                let b = a.clone();
                drop(a);
                obs(&b)?;
                match Arc::try_unique(b) {
                    Ok(u) => drop(u),
                    Err(_) => {
                        return viol(
                            "C03",
                            "uniq",
                            format!("{}: try_unique declined for a sole owner", what),
                        )
                    }
                }
                "clone, drop, try_unique, drop"
            }
            _ => {
                let p = Arc::into_raw(a);
                let b = unsafe { Arc::from_raw(p) };
                obs(&b)?;
                drop(b);
                "into_raw -> from_raw (unsized), drop"
            }
        })
    })?;
    check_released(&format!("{} ({})", what, relname), heap)?;
    ensure!(
        tk::z_live() == z0,
        "C05,C01,C06",
        "layout",
        "{} ({}): zero-sized elements with destructors not destroyed exactly once",
        what,
        relname
    );
    if shadow::active() {
        let lb = shadow::live_blocks();
        ensure!(
            lb.is_empty(),
            "C05,C01",
            "layout",
            "{} ({}): blocks left behind: {:x?}",
            what,
            relname,
            &lb[..lb.len().min(3)]
        );
    }
    st.counts.bump(&format!("shapes.c.rel:{}", relname));
    st.cases.insert(hash64(&format!(
        "C|{}|{}|{}|{}",
        T::NAME,
        len,
        how,
        relname
    )));
    Ok(())
}

pub fn case_str(len: usize, ctor: usize, st: &mut SStats) -> R {
    shadow::reset();
    // mixed ASCII / multi-byte characters, `len` characters long
    let s: String = (0..len).map(|k| ['a', 'é', 'z', '∂', '日', 'q', '😀'][k % 7]).collect();
    let what = format!("str chars={} bytes={} ctor=S{}", len, s.len(), ctor);
    let len = s.len();
    let (heap, p, l, relname);
    match ctor {
        0 | 1 => {
            let a: Arc<str> = shadow::tracked(|| {
                if ctor == 0 {
                    Arc::from(&s[..])
                } else {
                    Arc::from(s.clone())
                }
            });
            heap = a.heap_ptr() as usize;
            p = (*a).as_ptr() as usize;
            l = a.len();
            ensure!(&*a == s, "C06", "layout", "{}: contents differ", what);
            check_block(&what, heap, p, l, 1)?;
            ensure!(
                size_of::<Arc<str>>() == 2 * size_of::<usize>(),
                "C11",
                "ptr",
                "Arc<str> is not two words"
            );
            let q = Arc::into_raw(a);
            ensure!(
                q as *const u8 as usize == p,
                "C11",
                "ptr",
                "{}: into_raw != Deref address",
                what
            );
            let b = unsafe { Arc::from_raw(q) };
            ensure!(
                &*b == s && b.heap_ptr() as usize == heap,
                "C11",
                "ptr",
                "{}: from_raw(str) changed allocation/contents",
                what
            );
            shadow::tracked(|| drop(b));
            relname = "into_raw/from_raw, drop";
        }
        _ => {
            let a: Arc<HeaderSlice<u64, str>> =
                shadow::tracked(|| Arc::from_header_and_str(77u64, &s));
            heap = a.heap_ptr() as usize;
            ensure!(
                a.header == 77 && &a.slice == s.as_str(),
                "C06",
                "layout",
                "{}: contents differ",
                what
            );
            check_block(
                &what,
                heap,
                &*a as *const _ as *const u8 as usize,
                size_of_val(&*a),
                align_of_val(&*a),
            )?;
            let b = a.clone();
            shadow::tracked(|| {
                drop(a);
                drop(b)
            });
            relname = "clone, drop both";
        }
    }
    check_released(&format!("{} ({})", what, relname), heap)?;
    st.counts.bump("shapes.str");
    st.cases.insert(hash64(&format!("S|{}|{}", len, ctor)));
    Ok(())
}

// ---------------------------------------------------------------------------------------------
// family A: sized payloads -- pointer identities, widths, every sized release path

pub const A_CTORS: usize = 7;
pub const A_RELS: usize = 12;

pub fn case_a<S: Sh>(ctor: usize, rel: usize, st: &mut SStats) -> R {
    let what = format!("S={} ctor=A{} rel=R{}", S::NAME, ctor, rel);
    let z0 = tk::z_live();
    shadow::reset();
    let w = size_of::<usize>();
    ensure!(
        size_of::<Arc<S>>() == w
            && size_of::<Option<Arc<S>>>() == w
            && size_of::<OffsetArc<S>>() == w
            && size_of::<Option<OffsetArc<S>>>() == w
            && size_of::<ArcBorrow<'static, S>>() == w
            && size_of::<Option<ArcBorrow<'static, S>>>() == w
            && size_of::<UniqueArc<S>>() == w
            && size_of::<Option<UniqueArc<S>>>() == w
            && size_of::<ArcUnion<S, u64>>() == w
            && size_of::<Option<ArcUnion<S, u64>>>() == w
            && size_of::<Arc<dyn ShDyn>>() == 2 * w
            && size_of::<Option<Arc<dyn ShDyn>>>() == 2 * w,
        "C11",
        "ptr",
        "{}: a handle type is not pointer-sized with a niche",
        what
    );
    let (a, how): (Arc<S>, &'static str) = shadow::tracked(|| match ctor {
        0 => (Arc::new(S::gen(5)), "Arc::new"),
        1 => (Arc::from(S::gen(5)), "From<T>"),
        2 => (Arc::from(Box::new(S::gen(5))), "From<Box<T>>"),
        3 => (UniqueArc::new(S::gen(5)).shareable(), "UniqueArc::new"),
        4 => {
            let mut u = UniqueArc::<S>::new_uninit();
            u.write(S::gen(5));
            (
                unsafe { UniqueArc::assume_init(u) }.shareable(),
                "UniqueArc::new_uninit+write+assume_init",
            )
        }
        5 => {
            let mut a: Arc<MaybeUninit<S>> = Arc::new_uninit();
            Arc::get_mut(&mut a).unwrap().write(S::gen(5));
            (unsafe { a.assume_init() }, "Arc::new_uninit+assume_init")
        }
        _ => {
            let f: Arc<HeaderSlice<(), S>> = Arc::from(Arc::new(S::gen(5)));
            (f.into(), "Arc::new -> HeaderSlice<(),T> -> back")
        }
    });
    st.counts.bump(&format!("shapes.a.ctor:{}", how));
    let heap = a.heap_ptr() as usize;
    let p = &*a as *const S as usize;
    check_block(&what, heap, p, size_of::<S>(), align_of::<S>())?;
    check_val(&what, &*a, 5)?;
    // pointer identities [C11]
    let b = a.borrow_arc();
    let bits_b: usize = unsafe { std::mem::transmute_copy(&b) };
    ensure!(
        Arc::as_ptr(&a) as usize == p,
        "C11",
        "ptr",
        "{}: as_ptr {:#x} != Deref address {:#x}",
        what,
        Arc::as_ptr(&a) as usize,
        p
    );
    ensure!(
        bits_b == p && b.get() as *const S as usize == p,
        "C11",
        "ptr",
        "{}: ArcBorrow bit pattern {:#x} != value address {:#x}",
        what,
        bits_b,
        p
    );
    #[cfg(feature = "full")]
    {
        // unsizing a borrow must keep pointing at the value
        use unsize::CoerceUnsize;
        let bd: ArcBorrow<'_, dyn ShDyn> = a.borrow_arc().unsize(unsize::Coercion!(to dyn ShDyn));
        let bits: (usize, usize) = unsafe { std::mem::transmute_copy(&bd) };
        ensure!(bits.0 == p, "C11", "ptr", "{}: unsized ArcBorrow<dyn> holds {:#x}, the value lives at {:#x}", what, bits.0, p);
    }
    let c = a.clone();
    ensure!(
        Arc::as_ptr(&c) as usize == p && c.heap_ptr() as usize == heap,
        "C11",
        "ptr",
        "{}: clone exposes another address",
        what
    );
    let moved = Box::new(c);
    ensure!(
        Arc::as_ptr(&moved) as usize == p,
        "C11",
        "ptr",
        "{}: moved handle exposes another address",
        what
    );
    shadow::tracked(|| drop(moved));
    a.with_raw_offset_arc(|o| {
        let bits: usize = unsafe { std::mem::transmute_copy(o) };
        ensure!(
            bits == p && &**o as *const S as usize == p,
            "C11",
            "ptr",
            "{}: OffsetArc bit pattern {:#x} != value address {:#x}",
            what,
            bits,
            p
        );
        Ok(())
    })?;
    #[cfg(feature = "full")]
    {
        use arc_swap::RefCnt;
        ensure!(
            <Arc<S> as RefCnt>::as_ptr(&a) as usize == p,
            "C11",
            "ptr",
            "{}: RefCnt::as_ptr != value address",
            what
        );
    }
    let relname = shadow::tracked(|| -> R<&'static str> {
        Ok(match rel {
            0 => {
                drop(a);
                "drop Arc"
            }
            1 => {
                let o = Arc::into_raw_offset(a);
                ensure!(
                    &*o as *const S as usize == p,
                    "C11",
                    "ptr",
                    "{}: OffsetArc Deref moved",
                    what
                );
                let o2 = o.clone();
                drop(o);
                check_val(&what, &*o2, 5)?;
                drop(o2);
                "into_raw_offset, clone, drop both"
            }
            2 => {
                let o = Arc::into_raw_offset(a);
                let back = Arc::from_raw_offset(o);
                ensure!(
                    back.heap_ptr() as usize == heap && Arc::count(&back) == 1,
                    "C11",
                    "ptr",
                    "{}: from_raw_offset gave another allocation/count",
                    what
                );
                drop(back);
                "into_raw_offset -> from_raw_offset, drop"
            }
            3 => {
                let q = Arc::into_raw(a);
                ensure!(
                    q as usize == p,
                    "C11",
                    "ptr",
                    "{}: into_raw {:#x} != value address {:#x}",
                    what,
                    q as usize,
                    p
                );
                let bb = unsafe { ArcBorrow::from_ptr(q) };
                ensure!(
                    ArcBorrow::strong_count(&bb) == 1,
                    "C11,C04",
                    "ptr",
                    "{}: ArcBorrow::from_ptr sees count {}",
                    what,
                    ArcBorrow::strong_count(&bb)
                );
                let extra = bb.clone_arc();
                ensure!(
                    extra.heap_ptr() as usize == heap,
                    "C11",
                    "ptr",
                    "{}: ArcBorrow::from_ptr().clone_arc() is another allocation",
                    what
                );
                drop(extra);
                let back = unsafe { Arc::from_raw(q) };
                ensure!(
                    back.heap_ptr() as usize == heap && Arc::count(&back) == 1,
                    "C11",
                    "ptr",
                    "{}: from_raw gave another allocation/count",
                    what
                );
                check_val(&what, &*back, 5)?;
                drop(back);
                "into_raw -> ArcBorrow::from_ptr -> from_raw, drop"
            }
            4 => {
                let q = Arc::into_raw(a) as *const dyn ShDyn;
                let d: Arc<dyn ShDyn> = unsafe { Arc::from_raw(q) };
                ensure!(
                    d.heap_ptr() as usize == heap && Arc::count(&d) == 1 && d.ok_dyn(5),
                    "C11",
                    "ptr",
                    "{}: from_raw(dyn) gave another allocation/count/contents",
                    what
                );
                ensure!(
                    Arc::as_ptr(&d) as *const u8 as usize == p,
                    "C11",
                    "ptr",
                    "{}: dyn as_ptr != value address",
                    what
                );
                let d2 = d.clone();
                drop(d);
                drop(d2);
                "into_raw -> cast to dyn -> from_raw, clone, drop both"
            }
            5 => {
                #[cfg(feature = "full")]
                {
                    use unsize::CoerceUnsize;
                    let d: Arc<dyn ShDyn> = a.unsize(unsize::Coercion!(to dyn ShDyn));
                    ensure!(
                        d.heap_ptr() as usize == heap && d.ok_dyn(5),
                        "C11",
                        "ptr",
                        "{}: unsize moved the allocation",
                        what
                    );
                    let q = Arc::into_raw(d);
                    ensure!(
                        q as *const u8 as usize == p,
                        "C11",
                        "ptr",
                        "{}: into_raw(dyn) != value address",
                        what
                    );
                    let d = unsafe { Arc::from_raw(q) };
                    drop(d);
                    "unsize to dyn, into_raw/from_raw, drop"
                }
                #[cfg(not(feature = "full"))]
                {
                    drop(a);
                    "drop Arc"
                }
            }
            6 => match Arc::try_unwrap(a) {
                Ok(v) => {
                    check_val(&what, &v, 5)?;
                    drop(v);
                    "try_unwrap"
                }
                Err(_) => {
                    return viol(
                        "C03,C09",
                        "uniq",
                        format!("{}: try_unwrap declined for a sole owner", what),
                    )
                }
            },
            7 => match Arc::try_unique(a) {
                Ok(u) => {
                    let v = UniqueArc::into_inner(u);
                    check_val(&what, &v, 5)?;
                    drop(v);
                    "try_unique -> into_inner"
                }
                Err(_) => {
                    return viol(
                        "C03,C09",
                        "uniq",
                        format!("{}: try_unique declined for a sole owner", what),
                    )
                }
            },
            8 => {
                let f: Arc<HeaderSlice<(), S>> = a.into();
                ensure!(
                    f.heap_ptr() as usize == heap && &f.slice as *const S as usize == p,
                    "C11",
                    "ptr",
                    "{}: header attachment moved the value",
                    what
                );
                drop(f);
                "-> HeaderSlice<(),T>, drop"
            }
            9 => {
                #[cfg(feature = "full")]
                {
                    use arc_swap::RefCnt;
                    let q = <Arc<S> as RefCnt>::into_ptr(a);
                    ensure!(
                        q as usize == p,
                        "C11",
                        "ptr",
                        "{}: RefCnt::into_ptr != value address",
                        what
                    );
                    let back = unsafe { <Arc<S> as RefCnt>::from_ptr(q) };
                    ensure!(
                        back.heap_ptr() as usize == heap,
                        "C11",
                        "ptr",
                        "{}: RefCnt::from_ptr gave another allocation",
                        what
                    );
                    let cell: arc_swap::ArcSwapAny<Arc<S>> =
                        shadow::untracked(|| arc_swap::ArcSwapAny::new(back));
                    let g = shadow::untracked(|| cell.load_full());
                    ensure!(
                        Arc::as_ptr(&g) as usize == p,
                        "C11",
                        "ptr",
                        "{}: arc-swap load_full exposes another address",
                        what
                    );
                    drop(g);
                    shadow::untracked(|| drop(cell));
                    "RefCnt into_ptr/from_ptr, ArcSwap new/load_full/drop"
                }
                #[cfg(not(feature = "full"))]
                {
                    drop(a);
                    "drop Arc"
                }
            }
            10 => {
                let u1: ArcUnion<S, u64> = ArcUnion::from_first(a);
                let u2 = u1.clone();
                drop(u1);
                match u2.borrow() {
                    ArcUnionBorrow::First(b) => ensure!(
                        b.get() as *const S as usize == p,
                        "C12,C11",
                        "union",
                        "{}: union exposes another address",
                        what
                    ),
                    _ => return viol("C12", "union", format!("{}: first became second", what)),
                }
                drop(u2);
                "ArcUnion::from_first, clone, drop both"
            }
            _ => {
                let u1: ArcUnion<u64, S> = ArcUnion::from_second(a);
                ensure!(
                    u1.is_second(),
                    "C12",
                    "union",
                    "{}: from_second is not second",
                    what
                );
                let extra = u1.as_second().unwrap().clone_arc();
                drop(u1);
                ensure!(
                    Arc::as_ptr(&extra) as usize == p && Arc::count(&extra) == 1,
                    "C12,C11",
                    "union",
                    "{}: union second: wrong allocation or count",
                    what
                );
                drop(extra);
                "ArcUnion::from_second, as_second.clone_arc, drop both"
            }
        })
    })?;
    check_released(&format!("{} ({})", what, relname), heap)?;
    ensure!(
        tk::z_live() == z0,
        "C05,C01",
        "layout",
        "{} ({}): zero-sized value with destructor not destroyed exactly once",
        what,
        relname
    );
    if shadow::active() {
        let lb = shadow::live_blocks();
        ensure!(
            lb.is_empty(),
            "C05,C01",
            "layout",
            "{} ({}): blocks left behind: {:x?}",
            what,
            relname,
            &lb[..lb.len().min(3)]
        );
    }
    st.counts.bump(&format!("shapes.a.rel:{}", relname));
    st.cases
        .insert(hash64(&format!("A|{}|{}|{}", S::NAME, how, relname)));
    if st.sample.len() < 10 && rel % 3 == 0 {
        st.sample
            .push(format!("{} via {} released by {}", what, how, relname));
    }
    Ok(())
}

// ---------------------------------------------------------------------------------------------
// unions over ordered pairs [C12]

pub fn case_union<A: Sh, B: Sh>(variant: usize, script: u64, st: &mut SStats) -> R {
    let what = format!(
        "ArcUnion<{},{}> variant={} script={}",
        A::NAME,
        B::NAME,
        variant,
        script
    );
    let z0 = tk::z_live();
    shadow::reset();
    ensure!(
        size_of::<ArcUnion<A, B>>() == size_of::<usize>()
            && size_of::<Option<ArcUnion<A, B>>>() == size_of::<usize>(),
        "C12,C11",
        "union",
        "{}: not one word with a niche",
        what
    );
    let mut rng = Rng::new(script);
    // the plain Arcs the unions are built from (kept as co-owners for part of the script)
    let a: Arc<A> = shadow::tracked(|| Arc::new(A::gen(11)));
    let b: Arc<B> = shadow::tracked(|| Arc::new(B::gen(22)));
    let (pa, pb) = (Arc::as_ptr(&a) as usize, Arc::as_ptr(&b) as usize);
    let (ha, hb) = (a.heap_ptr() as usize, b.heap_ptr() as usize);
    let first = variant == 0;
    let mut unions: Vec<ArcUnion<A, B>> = Vec::new();
    let mut na = 1usize; // owners of a's allocation
    let mut nb = 1usize;
    let u0 = shadow::tracked(|| {
        if first {
            ArcUnion::from_first(a.clone())
        } else {
            ArcUnion::from_second(b.clone())
        }
    });
    if first {
        na += 1
    } else {
        nb += 1
    }
    unions.push(u0);
    let other = shadow::tracked(|| {
        if first {
            ArcUnion::<A, B>::from_second(b.clone())
        } else {
            ArcUnion::<A, B>::from_first(a.clone())
        }
    });
    if first {
        nb += 1
    } else {
        na += 1
    }
    ensure!(
        unions[0] != other && !(unions[0] == other) && other != unions[0],
        "C12,C14",
        "union",
        "{}: unions holding different variants compare equal",
        what
    );
    ensure!(
        unions[0] == unions[0],
        "C12,C14",
        "union",
        "{}: a union does not compare equal to itself",
        what
    );
    let mut extra_a: Vec<Arc<A>> = Vec::new();
    let mut extra_b: Vec<Arc<B>> = Vec::new();
    let check = |unions: &Vec<ArcUnion<A, B>>, na: usize, nb: usize, when: &str| -> R {
        for u in unions {
            ensure!(
                u.is_first() == first && u.is_second() != first,
                "C12",
                "union",
                "{} {}: variant accessor flipped",
                what,
                when
            );
            ensure!(
                u.as_first().is_some() == first && u.as_second().is_some() != first,
                "C12",
                "union",
                "{} {}: as_first/as_second disagree with the constructor",
                what,
                when
            );
            if let Some(x) = u.as_first() {
                ensure!(x.get() as *const A as usize == pa && x.ok(11), "C12,C11", "union", "{} {}: as_first() exposes another address or value", what, when);
            }
            if let Some(x) = u.as_second() {
                ensure!(x.get() as *const B as usize == pb && x.ok(22), "C12,C11", "union", "{} {}: as_second() exposes another address or value", what, when);
            }
            match u.borrow() {
                ArcUnionBorrow::First(x) => {
                    ensure!(
                        first,
                        "C12",
                        "union",
                        "{} {}: borrow() says first",
                        what,
                        when
                    );
                    ensure!(
                        x.get() as *const A as usize == pa && x.ok(11),
                        "C12",
                        "union",
                        "{} {}: first payload address/contents differ from the source Arc",
                        what,
                        when
                    );
                    ensure!(
                        ArcBorrow::strong_count(&x) == na,
                        "C12,C04",
                        "union",
                        "{} {}: count through the union is {} with {} owners",
                        what,
                        when,
                        ArcBorrow::strong_count(&x),
                        na
                    );
                }
                ArcUnionBorrow::Second(x) => {
                    ensure!(
                        !first,
                        "C12",
                        "union",
                        "{} {}: borrow() says second",
                        what,
                        when
                    );
                    ensure!(
                        x.get() as *const B as usize == pb && x.ok(22),
                        "C12",
                        "union",
                        "{} {}: second payload address/contents differ from the source Arc",
                        what,
                        when
                    );
                    ensure!(
                        ArcBorrow::strong_count(&x) == nb,
                        "C12,C04",
                        "union",
                        "{} {}: count through the union is {} with {} owners",
                        what,
                        when,
                        ArcBorrow::strong_count(&x),
                        nb
                    );
                }
            }
            ensure!(
                ArcUnion::strong_count(u) == if first { na } else { nb },
                "C12,C04",
                "union",
                "{} {}: ArcUnion::strong_count wrong",
                what,
                when
            );
        }
        Ok(())
    };
    ensure!(
        Arc::count(&a) == na && Arc::count(&b) == nb,
        "C12,C04",
        "union",
        "{}: counts after construction {}/{} expected {}/{}",
        what,
        Arc::count(&a),
        Arc::count(&b),
        na,
        nb
    );
    check(&unions, na, nb, "after construction")?;
    for step in 0..6 {
        match rng.below(6) {
            5 => {
                // clone_from across variants: a scratch union that is the sole owner of a fresh allocation of the
                // *other* variant takes over one of ours (the fresh allocation must be destroyed as what it is),
                // is then pointed back at `other`, and dropped
                let (mut s, fresh_heap) = shadow::tracked(|| {
                    if first {
                        let x = Arc::new(B::gen(33));
                        let h = x.heap_ptr() as usize;
                        (ArcUnion::<A, B>::from_second(x), h)
                    } else {
                        let x = Arc::new(A::gen(33));
                        let h = x.heap_ptr() as usize;
                        (ArcUnion::<A, B>::from_first(x), h)
                    }
                });
                shadow::tracked(|| s.clone_from(&unions[0]));
                if first {
                    na += 1
                } else {
                    nb += 1
                }
                check_released_p(
                    &format!("{}: the allocation a union let go of in clone_from", what),
                    fresh_heap,
                    "C12,C05",
                )?;
                ensure!(
                    s.is_first() == first && ArcUnion::ptr_eq(&s, &unions[0]) && s == unions[0],
                    "C12",
                    "union",
                    "{}: after clone_from the union does not hold the source's variant and allocation",
                    what
                );
                ensure!(
                    Arc::count(&a) == na && Arc::count(&b) == nb,
                    "C12,C04",
                    "union",
                    "{}: counts after clone_from {}/{} expected {}/{}",
                    what,
                    Arc::count(&a),
                    Arc::count(&b),
                    na,
                    nb
                );
                shadow::tracked(|| s.clone_from(&other));
                ensure!(
                    s.is_first() != first && ArcUnion::ptr_eq(&s, &other) && s != unions[0],
                    "C12",
                    "union",
                    "{}: after clone_from(other variant) the union does not hold that variant",
                    what
                );
                if first {
                    na -= 1
                } else {
                    nb -= 1
                }
                // s co-owns `other`'s allocation now
                ensure!(
                    Arc::count(&a) == na + (!first) as usize && Arc::count(&b) == nb + first as usize,
                    "C12,C04",
                    "union",
                    "{}: counts after clone_from(other variant) {}/{}",
                    what,
                    Arc::count(&a),
                    Arc::count(&b)
                );
                shadow::tracked(|| drop(s));
                st.counts.bump("shapes.union.clone_from");
            }
            0 => {
                let c = shadow::tracked(|| unions[rng.below(unions.len())].clone());
                unions.push(c);
                if first {
                    na += 1
                } else {
                    nb += 1
                }
            }
            1 if unions.len() > 1 => {
                let i = rng.below(unions.len());
                let u = unions.swap_remove(i);
                shadow::tracked(|| drop(u));
                if first {
                    na -= 1
                } else {
                    nb -= 1
                }
            }
            2 => {
                let u = &unions[rng.below(unions.len())];
                shadow::tracked(|| match u.borrow() {
                    ArcUnionBorrow::First(x) => extra_a.push(x.clone_arc()),
                    ArcUnionBorrow::Second(x) => extra_b.push(x.clone_arc()),
                });
                if first {
                    na += 1
                } else {
                    nb += 1
                }
            }
            3 => {
                // plain-Arc operations on the same allocations
                if let Some(x) = extra_a.pop() {
                    shadow::tracked(|| drop(x));
                    na -= 1;
                } else if let Some(x) = extra_b.pop() {
                    shadow::tracked(|| drop(x));
                    nb -= 1;
                }
            }
            _ => {
                let u = &unions[0];
                ensure!(
                    ArcUnion::ptr_eq(u, u),
                    "C12",
                    "union",
                    "{}: ptr_eq(u,u) false",
                    what
                );
                let v = shadow::tracked(|| u.clone());
                ensure!(
                    ArcUnion::ptr_eq(u, &v),
                    "C12",
                    "union",
                    "{}: ptr_eq(u, u.clone()) false",
                    what
                );
                shadow::tracked(|| drop(v));
            }
        }
        ensure!(
            Arc::count(&a) == na && Arc::count(&b) == nb,
            "C12,C04",
            "union",
            "{} step {}: counts {}/{} expected {}/{}",
            what,
            step,
            Arc::count(&a),
            Arc::count(&b),
            na,
            nb
        );
        check(&unions, na, nb, "mid-script")?;
    }
    // let the union be the last owner of its allocation
    shadow::tracked(|| {
        drop(extra_a);
        drop(extra_b);
        drop(other);
        drop(a);
        drop(b);
    });
    // now only `unions` own the variant's allocation; the other allocation must be gone already
    let (mine, gone) = if first { (ha, hb) } else { (hb, ha) };
    check_released_p(
        &format!("{}: the other variant's allocation", what),
        gone,
        "C12,C05",
    )?;
    if shadow::active() {
        ensure!(
            shadow::live_layout(mine).is_some(),
            "C12,C01",
            "union",
            "{}: the union's allocation was freed while unions still own it",
            what
        );
    }
    let n = unions.len();
    for (k, u) in unions.drain(..).enumerate() {
        if k + 1 == n {
            ensure!(
                ArcUnion::strong_count(&u) == 1,
                "C12,C04",
                "union",
                "{}: last union sees count {}",
                what,
                ArcUnion::strong_count(&u)
            );
        }
        shadow::tracked(|| drop(u));
    }
    check_released_p(
        &format!("{}: last release through the union", what),
        mine,
        "C12,C05",
    )?;
    ensure!(
        tk::z_live() == z0,
        "C12,C01",
        "union",
        "{}: zero-sized payload with destructor not destroyed exactly once ({} alive)",
        what,
        tk::z_live() - z0
    );
    if shadow::active() {
        let lb = shadow::live_blocks();
        ensure!(
            lb.is_empty(),
            "C12,C01",
            "union",
            "{}: blocks left behind: {:x?}",
            what,
            &lb[..lb.len().min(3)]
        );
    }
    st.counts.bump("shapes.union");
    st.counts.bump(if first {
        "shapes.union.first"
    } else {
        "shapes.union.second"
    });
    st.cases
        .insert(hash64(&format!("U|{}|{}|{}", A::NAME, B::NAME, variant)));
    if st.sample.len() < 12 && script % 5 == 0 {
        st.sample.push(what);
    }
    Ok(())
}

// ---------------------------------------------------------------------------------------------
// overflow clause [C05]

struct Liar {
    claimed: usize,
}
impl Iterator for Liar {
    type Item = u64;
    fn next(&mut self) -> Option<u64> {
        Some(1)
    }
    fn size_hint(&self) -> (usize, Option<usize>) {
        (self.claimed, Some(self.claimed))
    }
}
impl ExactSizeIterator for Liar {
    fn len(&self) -> usize {
        self.claimed
    }
}

struct LiarU8 {
    claimed: usize,
}
impl Iterator for LiarU8 {
    type Item = u8;
    fn next(&mut self) -> Option<u8> {
        Some(1)
    }
    fn size_hint(&self) -> (usize, Option<usize>) {
        (self.claimed, Some(self.claimed))
    }
}
impl ExactSizeIterator for LiarU8 {
    fn len(&self) -> usize {
        self.claimed
    }
}

pub fn overflow_cases(st: &mut SStats) -> R {
    let big = isize::MAX as usize;
    let cases: Vec<(&'static str, Box<dyn Fn()>)> = vec![
        (
            "Arc::<[u64]>::new_uninit_slice(isize::MAX/8+1)",
            Box::new(move || drop(Arc::<[MaybeUninit<u64>]>::new_uninit_slice(big / 8 + 1))),
        ),
        (
            "Arc::<[u64]>::new_uninit_slice(usize::MAX/8)",
            Box::new(|| drop(Arc::<[MaybeUninit<u64>]>::new_uninit_slice(usize::MAX / 8))),
        ),
        (
            "Arc::<[u16]>::new_uninit_slice(usize::MAX)",
            Box::new(|| drop(Arc::<[MaybeUninit<u16>]>::new_uninit_slice(usize::MAX))),
        ),
        (
            "Arc::<[u8]>::new_uninit_slice(isize::MAX-7)",
            Box::new(move || drop(Arc::<[MaybeUninit<u8>]>::new_uninit_slice(big - 7))),
        ),
        (
            "Arc::<[u8]>::new_uninit_slice(usize::MAX)",
            Box::new(|| drop(Arc::<[MaybeUninit<u8>]>::new_uninit_slice(usize::MAX))),
        ),
        (
            "UniqueArc::<[A64]>::new_uninit_slice(usize::MAX/64+2)",
            Box::new(|| {
                drop(UniqueArc::<[MaybeUninit<A64>]>::new_uninit_slice(
                    usize::MAX / 64 + 2,
                ))
            }),
        ),
        (
            "UniqueArc::from_header_and_uninit_slice(A64, isize::MAX/16 u128)",
            Box::new(move || {
                drop(UniqueArc::<HeaderSlice<A64, [MaybeUninit<u128>]>>::from_header_and_uninit_slice(A64::gen(1), big / 16 + 1))
            }),
        ),
        (
            "Arc::from_header_and_iter(lying len usize::MAX/2)",
            Box::new(|| {
                drop(Arc::from_header_and_iter(
                    1u8,
                    Liar {
                        claimed: usize::MAX / 2,
                    },
                ))
            }),
        ),
        (
            "Arc::from_header_and_iter(lying len isize::MAX/8+1)",
            Box::new(move || {
                drop(Arc::from_header_and_iter(
                    (),
                    Liar {
                        claimed: big / 8 + 1,
                    },
                ))
            }),
        ),
        (
            "ThinArc::from_header_and_iter(lying len usize::MAX/4)",
            Box::new(|| {
                drop(ThinArc::from_header_and_iter(
                    7u32,
                    Liar {
                        claimed: usize::MAX / 4,
                    },
                ))
            }),
        ),
        (
            "FromIterator with lying exact hint usize::MAX/8+9",
            Box::new(|| {
                drop(
                    Liar {
                        claimed: usize::MAX / 8 + 9,
                    }
                    .collect::<Arc<[u64]>>(),
                )
            }),
        ),
    ];
    for (name, f) in cases {
        shadow::reset();
        let r = shadow::tracked(|| catch(|| f()));
        ensure!(
            r.is_err(),
            "C05",
            "overflow",
            "{}: a size computation that overflows was not refused with a panic",
            name
        );
        if shadow::active() {
            let lb = shadow::live_blocks();
            // the panic payload itself may still be alive inside `r`; drop it first
            drop(r);
            let lb2 = shadow::live_blocks();
            ensure!(lb2.is_empty(), "C05", "overflow", "{}: blocks allocated and left behind by a refused construction: {:x?} (before dropping the panic payload: {})", name, &lb2[..lb2.len().min(3)], lb.len());
        }
        st.counts.bump("shapes.overflow");
        st.cases.insert(hash64(name));
    }
    // near-overflow: count + header + padding + elements passes isize::MAX (or even wraps usize)
    // although the element array alone is representable; every such request must be refused
    let lens: Vec<usize> = (0..40).map(|k| usize::MAX - k).chain((0..40).map(|j| big - 14 + j)).collect();
    for len in lens {
        let probes: Vec<(&'static str, Box<dyn Fn()>)> = vec![
            ("from_header_and_uninit_slice::<u64,u8>", Box::new(move || drop(UniqueArc::<HeaderSlice<u64, [MaybeUninit<u8>]>>::from_header_and_uninit_slice(7, len)))),
            ("from_header_and_uninit_slice::<A16,u8>", Box::new(move || drop(UniqueArc::<HeaderSlice<A16, [MaybeUninit<u8>]>>::from_header_and_uninit_slice(A16::gen(1), len)))),
            ("from_header_and_uninit_slice::<ZA16,u8>", Box::new(move || drop(UniqueArc::<HeaderSlice<ZA16, [MaybeUninit<u8>]>>::from_header_and_uninit_slice(ZA16, len)))),
            ("new_uninit_slice::<u8>", Box::new(move || drop(Arc::<[MaybeUninit<u8>]>::new_uninit_slice(len)))),
            ("ThinArc::from_header_and_iter(lying len, u8 elements)", Box::new(move || drop(ThinArc::from_header_and_iter(3u8, LiarU8 { claimed: len })))),
            ("Arc::from_header_and_iter(u64 header, lying len, u8 elements)", Box::new(move || drop(Arc::from_header_and_iter(3u64, LiarU8 { claimed: len })))),
        ];
        for (name, f) in probes {
            // only requests whose total size exceeds isize::MAX are probed (a representable huge
            // request would legitimately end in the allocation-error abort)
            shadow::reset();
            let r = shadow::tracked(|| catch(|| f()));
            ensure!(r.is_err(), "C05", "overflow", "{} with length {:#x}: a total size beyond isize::MAX was not refused with a panic", name, len);
            if shadow::active() {
                drop(r);
                let lb = shadow::live_blocks();
                ensure!(lb.is_empty(), "C05", "overflow", "{} with length {:#x}: a block was allocated and left behind by a refused construction: {:x?}", name, len, &lb[..lb.len().min(2)]);
            }
            st.counts.bump("shapes.overflow");
        }
        st.cases.insert(hash64(&format!("near-overflow|{}", len)));
    }
    // zero-sized elements: any length is representable
    shadow::reset();
    let a: Arc<[MaybeUninit<()>]> = shadow::tracked(|| Arc::new_uninit_slice(usize::MAX));
    ensure!(
        a.len() == usize::MAX,
        "C05,C06",
        "overflow",
        "new_uninit_slice::<()>(usize::MAX) has length {}",
        a.len()
    );
    let heap = a.heap_ptr() as usize;
    shadow::tracked(|| drop(a));
    check_released("new_uninit_slice::<()>(usize::MAX)", heap)?;
    st.counts.bump("shapes.overflow");
    Ok(())
}
