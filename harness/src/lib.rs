//! tv: runtime-monitoring harness for triomphe (library part: monitors, models, engines).
pub mod cmp;
pub mod conc;
pub mod ctor;
pub mod faults;
pub mod hist;
pub mod overflow;
pub mod serde_eng;
pub mod shadow;
pub mod shapes;
pub mod slices;
pub mod thin;
pub mod tk;
pub mod uninit;
pub mod util;

#[global_allocator]
static GLOBAL: shadow::Shadow = shadow::Shadow;
