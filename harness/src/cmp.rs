//! cmp engine [C14]: comparison, ordering, hashing and formatting through handles give the same
//! answers as on the values they hold. Exhaustive over a small domain (headers {a,b,c} x slices over
//! {a,b,c} of length <= 3 x recorded length {true, true+1}: 240 values, all ordered pairs), for a
//! totally ordered, a partially ordered (f64 with NaN) and an equality-only element class, with the
//! two operands in distinct allocations and in the same allocation, plus seeded larger values.

use crate::ensure;
use crate::util::*;
use std::cmp::Ordering;
use std::collections::{BTreeMap, BTreeSet, HashMap};
use std::fmt::Debug;
use std::hash::{Hash, Hasher};
use triomphe::{Arc, ArcUnion, HeaderSlice, HeaderWithLength, OffsetArc, ThinArc};

pub struct CmpStats {
    pub counts: Counts,
    pub cases: BTreeSet<u64>,
    pub sample: Vec<String>,
}
impl CmpStats {
    pub fn new() -> Self {
        CmpStats {
            counts: Counts::default(),
            cases: BTreeSet::new(),
            sample: Vec::new(),
        }
    }
}

#[derive(Clone, Copy, Debug, PartialEq)]
pub struct EqOnly(pub u8);

/// One domain value: header letter, slice letters, recorded length.
#[derive(Clone, Debug)]
pub struct Val {
    pub h: u8,
    pub s: Vec<u8>,
    pub rec: usize,
}

pub fn domain() -> Vec<Val> {
    let mut slices: Vec<Vec<u8>> = vec![vec![]];
    for len in 1..=3u32 {
        for n in 0..3u32.pow(len) {
            let mut v = Vec::new();
            let mut m = n;
            for _ in 0..len {
                v.push((m % 3) as u8);
                m /= 3;
            }
            v.reverse();
            slices.push(v);
        }
    }
    let mut out = Vec::new();
    for h in 0..3u8 {
        for s in &slices {
            for d in 0..2usize {
                out.push(Val {
                    h,
                    s: s.clone(),
                    rec: s.len() + d,
                });
            }
        }
    }
    out
}

fn hash_of<X: Hash + ?Sized>(x: &X) -> u64 {
    let mut h = crate::util::CallHasher::new();
    x.hash(&mut h);
    h.finish()
}

#[derive(Debug, Clone, PartialEq)]
struct Obs {
    eq: bool,
    ne: bool,
    rel: Option<[bool; 4]>, // lt le gt ge
    pc: Option<Option<Ordering>>,
    c: Option<Ordering>,
}

macro_rules! obs_eq {
    ($a:expr, $b:expr) => {
        Obs {
            eq: $a == $b,
            ne: $a != $b,
            rel: None,
            pc: None,
            c: None,
        }
    };
}
macro_rules! obs_po {
    ($a:expr, $b:expr) => {
        Obs {
            eq: $a == $b,
            ne: $a != $b,
            rel: Some([$a < $b, $a <= $b, $a > $b, $a >= $b]),
            pc: Some($a.partial_cmp(&$b)),
            c: None,
        }
    };
}
macro_rules! obs_ord {
    ($a:expr, $b:expr) => {
        Obs {
            eq: $a == $b,
            ne: $a != $b,
            rel: Some([$a < $b, $a <= $b, $a > $b, $a >= $b]),
            pc: Some($a.partial_cmp(&$b)),
            c: Some($a.cmp(&$b)),
        }
    };
}

/// Internal consistency of what a handle type answered (the laws of C14).
fn laws(what: &str, o: &Obs, licence: bool) -> R {
    ensure!(
        o.eq == !o.ne,
        "C14",
        "cmp",
        "{}: == is {} but != is {}",
        what,
        o.eq,
        o.ne
    );
    if let (Some(r), Some(pc)) = (o.rel, o.pc) {
        let want = [
            pc == Some(Ordering::Less),
            matches!(pc, Some(Ordering::Less | Ordering::Equal)),
            pc == Some(Ordering::Greater),
            matches!(pc, Some(Ordering::Greater | Ordering::Equal)),
        ];
        ensure!(
            r == want,
            "C14",
            "cmp",
            "{}: < <= > >= are {:?} but partial_cmp is {:?}",
            what,
            r,
            pc
        );
        if !licence {
            ensure!(
                o.eq == (pc == Some(Ordering::Equal)),
                "C14",
                "cmp",
                "{}: == is {} but partial_cmp is {:?}",
                what,
                o.eq,
                pc
            );
        }
    }
    if let (Some(c), Some(pc)) = (o.c, o.pc) {
        ensure!(
            pc == Some(c),
            "C14",
            "cmp",
            "{}: cmp is {:?} but partial_cmp is {:?}",
            what,
            c,
            pc
        );
        ensure!(
            (c == Ordering::Equal) == o.eq,
            "C14",
            "cmp",
            "{}: cmp is {:?} but == is {}",
            what,
            c,
            o.eq
        );
    }
    Ok(())
}

/// The handle must answer like the value; `licence`: both operands are the same allocation and the
/// value is not equal to itself, in which case == may also be true (and != false).
fn same_as_value(what: &str, handle: &Obs, value: &Obs, licence: bool) -> R {
    laws(what, handle, licence)?;
    if licence && !value.eq {
        ensure!(
            handle.rel == value.rel && handle.pc == value.pc && handle.c == value.c,
            "C14",
            "cmp",
            "{}: handle answers {:?}, value answers {:?}",
            what,
            handle,
            value
        );
    } else {
        ensure!(
            handle == value,
            "C14",
            "cmp",
            "{}: handle answers {:?}, the values answer {:?}",
            what,
            handle,
            value
        );
    }
    Ok(())
}

pub trait Letter: Copy + PartialEq + Debug + Send + Sync + 'static {
    const CLASS: &'static str;
    fn of(l: u8) -> Self;
}
impl Letter for u8 {
    const CLASS: &'static str = "total(u8)";
    fn of(l: u8) -> u8 {
        b'a' + l
    }
}
impl Letter for f64 {
    const CLASS: &'static str = "partial(f64)";
    fn of(l: u8) -> f64 {
        [1.0, f64::NAN, 0.0, -0.0, 2.5][l as usize % 5]
    }
}
impl Letter for EqOnly {
    const CLASS: &'static str = "eq-only";
    fn of(l: u8) -> EqOnly {
        EqOnly(l)
    }
}

type Fat<T> = Arc<HeaderSlice<T, [T]>>;
type Hwl<T> = Arc<HeaderSlice<HeaderWithLength<T>, [T]>>;

struct Built<T: Letter> {
    fat: Fat<T>,
    hwl: Hwl<T>,
    thin: Option<ThinArc<T, T>>,
    sl: Arc<[T]>,
    one: Arc<T>,
}

fn build<T: Letter>(v: &Val) -> Built<T> {
    let s: Vec<T> = v.s.iter().map(|l| T::of(*l)).collect();
    let h = T::of(v.h);
    Built {
        fat: Arc::from_header_and_slice(h, &s),
        hwl: Arc::from_header_and_slice(HeaderWithLength::new(h, v.rec), &s),
        thin: if v.rec == s.len() {
            Some(ThinArc::from_header_and_slice(h, &s))
        } else {
            None
        },
        sl: Arc::from(&s[..]),
        one: Arc::new(h),
    }
}

macro_rules! class_body {
    ($T:ty, $obs:ident, $vals:expr, $st:expr, $hash:expr, $ord:expr) => {{
        let vals: &Vec<Val> = $vals;
        let st: &mut CmpStats = $st;
        let a: Vec<Built<$T>> = vals.iter().map(build::<$T>).collect();
        let b: Vec<Built<$T>> = vals.iter().map(build::<$T>).collect();
        for i in 0..vals.len() {
            for j in 0..vals.len() {
                for same in [false, true] {
                    if same && i != j {
                        continue;
                    }
                    let (x, y) = (&a[i], if same { &a[i] } else { &b[j] });
                    let tag = format!("{} {:?} vs {:?} ({})", <$T as Letter>::CLASS, vals[i], vals[j], if same { "same allocation" } else { "distinct allocations" });
                    // reference: header followed by slice
                    let (hx, sx, hy, sy) = (<$T as Letter>::of(vals[i].h), &x.fat.slice, <$T as Letter>::of(vals[j].h), &y.fat.slice);
                    let tuple = $obs!((hx, &sx[..]), (hy, &sy[..]));
                    // 1. fat header-slice Arc: must answer like (header, slice)
                    let yc;
                    let yf: &Fat<$T> = if same {
                        yc = x.fat.clone();
                        &yc
                    } else {
                        &y.fat
                    };
                    same_as_value(&format!("Arc<HeaderSlice<H,[T]>> {}", tag), &$obs!(x.fat, *yf), &tuple, same)?;
                    same_as_value(&format!("HeaderSlice<H,[T]> value {}", tag), &$obs!(*x.fat, **yf), &tuple, false)?;
                    // 2. with a recorded length (possibly untruthful)
                    let hc;
                    let yh: &Hwl<$T> = if same {
                        hc = x.hwl.clone();
                        &hc
                    } else {
                        &y.hwl
                    };
                    let oh = $obs!(x.hwl, *yh);
                    let ov = $obs!(*x.hwl, **yh);
                    laws(&format!("Arc<HeaderSlice<HeaderWithLength<H>,[T]>> {}", tag), &oh, same)?;
                    same_as_value(&format!("Arc<HeaderSlice<HeaderWithLength<H>,[T]>> vs its value {}", tag), &oh, &ov, same)?;
                    if vals[i].rec == vals[j].rec {
                        // equal recorded lengths: exactly header followed by slice
                        same_as_value(&format!("HeaderSlice<HeaderWithLength<H>,[T]> value {}", tag), &ov, &tuple, false)?;
                    } else if tuple.eq {
                        // only the recorded length differs: unequal, and the order must say so too
                        ensure!(!ov.eq, "C14", "cmp", "header-slice values recording different lengths compare equal: {}", tag);
                    } else if let (Some(t), Some(o)) = (tuple.pc, ov.pc) {
                        ensure!(t == o, "C14", "cmp", "header-slice with recorded length does not order as header followed by slice: {:?} vs {:?} {}", o, t, tag);
                    }
                    // 3. thin (truthful lengths only)
                    if let (Some(tx), Some(ty0)) = (&x.thin, &y.thin) {
                        let tc;
                        let ty: &ThinArc<$T, $T> = if same {
                            tc = tx.clone();
                            &tc
                        } else {
                            ty0
                        };
                        // ThinArc has no same-allocation shortcut: it must answer exactly like the value
                        same_as_value(&format!("ThinArc {}", tag), &$obs!(*tx, *ty), &tuple, same)?;
                        let px = Arc::protected_from_thin(tx.clone());
                        let py = Arc::protected_from_thin(ty.clone());
                        same_as_value(&format!("Arc<HeaderSliceWithLengthProtected> {}", tag), &$obs!(px, py), &tuple, same)?;
                    }
                    // 4. plain slices and single values (subset of the domain to avoid repeats)
                    if vals[i].h == 0 && vals[j].h == 0 && vals[i].rec == vals[i].s.len() && vals[j].rec == vals[j].s.len() {
                        let sc;
                        let ys: &Arc<[$T]> = if same {
                            sc = x.sl.clone();
                            &sc
                        } else {
                            &y.sl
                        };
                        same_as_value(&format!("Arc<[T]> {}", tag), &$obs!(x.sl, *ys), &$obs!(&sx[..], &sy[..]), same)?;
                    }
                    if vals[i].s.is_empty() && vals[j].s.is_empty() && vals[i].rec == 0 && vals[j].rec == 0 {
                        let oc;
                        let yo: &Arc<$T> = if same {
                            oc = x.one.clone();
                            &oc
                        } else {
                            &y.one
                        };
                        let vo = $obs!(hx, hy);
                        same_as_value(&format!("Arc<T> {}", tag), &$obs!(x.one, *yo), &vo, same)?;
                        // eq-only handle kinds
                        let (ox, oy) = (Arc::into_raw_offset(x.one.clone()), Arc::into_raw_offset(yo.clone()));
                        same_as_value(&format!("OffsetArc<T> {}", tag), &obs_eq!(ox, oy), &obs_eq!(hx, hy), same)?;
                        same_as_value(&format!("ArcBorrow<T> {}", tag), &obs_eq!(x.one.borrow_arc(), yo.borrow_arc()), &obs_eq!(hx, hy), same)?;
                        let (u1, u2): (ArcUnion<$T, $T>, ArcUnion<$T, $T>) = (ArcUnion::from_first(x.one.clone()), ArcUnion::from_first(yo.clone()));
                        same_as_value(&format!("ArcUnion<T,T> first/first {}", tag), &obs_eq!(u1, u2), &obs_eq!(hx, hy), same)?;
                        let (s1, s2): (ArcUnion<$T, $T>, ArcUnion<$T, $T>) = (ArcUnion::from_second(x.one.clone()), ArcUnion::from_second(yo.clone()));
                        same_as_value(&format!("ArcUnion<T,T> second/second {}", tag), &obs_eq!(s1, s2), &obs_eq!(hx, hy), same)?;
                        ensure!(u1 != s2 && !(u1 == s2) && s1 != u2, "C14,C12", "cmp", "ArcUnion first vs second compare equal {}", tag);
                        // formatting
                        ensure!(format!("{:?}", x.one) == format!("{:?}", hx), "C14", "fmt", "Arc {{:?}} {}", tag);
                        // formatter flags must reach the value's impl
                        macro_rules! flags_same {
                            ($h:expr, $name:expr) => {
                                ensure!(
                                    format!("{:#?}", $h) == format!("{:#?}", hx)
                                        && format!("{:>9?}", $h) == format!("{:>9?}", hx)
                                        && format!("{:<7?}|", $h) == format!("{:<7?}|", hx)
                                        && format!("{:+?}", $h) == format!("{:+?}", hx)
                                        && format!("{:08.3?}", $h) == format!("{:08.3?}", hx),
                                    "C14",
                                    "fmt",
                                    "{} {{:?}} with formatter flags differs from the value's: {:?} vs {:?} ({})",
                                    $name,
                                    format!("{:>9?}", $h),
                                    format!("{:>9?}", hx),
                                    tag
                                );
                            };
                        }
                        flags_same!(x.one, "Arc");
                        flags_same!(ox, "OffsetArc");
                        flags_same!(x.one.borrow_arc(), "ArcBorrow");
                        ensure!(format!("{:?}", ox) == format!("{:?}", hx), "C14", "fmt", "OffsetArc {{:?}} {}", tag);
                        ensure!(format!("{:?}", x.one.borrow_arc()) == format!("{:?}", hx), "C14", "fmt", "ArcBorrow {{:?}} prints {} for value {:?}", format!("{:?}", x.one.borrow_arc()), hx);
                        let du = format!("{:?}", u1);
                        ensure!(du.contains(&format!("{:?}", hx)) && !du.contains("0x") && du == format!("{:?}", u1.clone()) && du != format!("{:?}", s1), "C14", "fmt", "ArcUnion {{:?}} = {} is not a function of variant and value {:?}", du, hx);
                    }
                    ensure!(format!("{:?}", x.fat) == format!("{:?}", &*x.fat), "C14", "fmt", "Arc<HeaderSlice> {{:?}} differs from the value's {}", tag);
                    ensure!(
                        format!("{:#?}", x.fat) == format!("{:#?}", &*x.fat) && format!("{:>40?}", x.sl) == format!("{:>40?}", &*x.sl),
                        "C14",
                        "fmt",
                        "Arc<HeaderSlice>/Arc<[T]> {{:#?}} / padded {{:?}} differs from the value's {}",
                        tag
                    );
                    if let Some(tx) = &x.thin {
                        ensure!(format!("{:#?}", tx) == format!("{:#?}", &**tx), "C14", "fmt", "ThinArc {{:#?}} differs from the value's {}", tag);
                        ensure!(format!("{:?}", tx) == format!("{:?}", &**tx), "C14", "fmt", "ThinArc {{:?}} differs from the value's {}", tag);
                    }
                    st.counts.bump("cmp.pairs");
                    if same {
                        st.counts.bump("cmp.pairs.same-allocation");
                    }
                }
            }
            st.cases.insert(hash64(&format!("{}|{:?}", <$T as Letter>::CLASS, vals[i])));
        }
        let _ = $ord;
        Ok(())
    }};
}

pub fn class_total(vals: &Vec<Val>, st: &mut CmpStats) -> R {
    class_body!(u8, obs_ord, vals, st, true, true)?;
    // hashing, maps and Display: only for the totally ordered class
    let a: Vec<Built<u8>> = vals.iter().map(build::<u8>).collect();
    let b: Vec<Built<u8>> = vals.iter().map(build::<u8>).collect();
    let mut hm: HashMap<Fat<u8>, usize> = HashMap::new();
    let mut bm: BTreeMap<Fat<u8>, usize> = BTreeMap::new();
    let mut hwm: HashMap<Hwl<u8>, usize> = HashMap::new();
    for (i, x) in a.iter().enumerate() {
        ensure!(
            hash_of(&x.fat) == hash_of(&*x.fat)
                && hash_of(&x.hwl) == hash_of(&*x.hwl)
                && hash_of(&x.sl) == hash_of(&*x.sl)
                && hash_of(&x.one) == hash_of(&*x.one),
            "C14",
            "hash",
            "Arc hash differs from the hash of the value for {:?}",
            vals[i]
        );
        ensure!(
            hash_of(&x.fat) == hash_of(&b[i].fat),
            "C14",
            "hash",
            "equal handles hash differently for {:?}",
            vals[i]
        );
        if let Some(t) = &x.thin {
            ensure!(
                hash_of(t) == hash_of(&**t),
                "C14",
                "hash",
                "ThinArc hash differs from the hash of the value for {:?}",
                vals[i]
            );
            ensure!(
                hash_of(t) == hash_of(b[i].thin.as_ref().unwrap()),
                "C14",
                "hash",
                "equal ThinArcs hash differently for {:?}",
                vals[i]
            );
        }
        if vals[i].rec == vals[i].s.len() {
            hm.insert(x.fat.clone(), i);
            bm.insert(x.fat.clone(), i);
        }
        hwm.insert(x.hwl.clone(), i);
        st.counts.bump("cmp.hash");
    }
    for (i, y) in b.iter().enumerate() {
        // probe with &T through Borrow
        if vals[i].rec == vals[i].s.len() {
            let k: &HeaderSlice<u8, [u8]> = &y.fat;
            let same_val = |f: Option<&usize>| {
                f.map(|n| vals[*n].h == vals[i].h && vals[*n].s == vals[i].s)
                    .unwrap_or(false)
            };
            ensure!(
                same_val(hm.get(k)),
                "C14",
                "map",
                "HashMap<Arc<T>,_> probed with &T finds {:?} for {:?}",
                hm.get(k),
                vals[i]
            );
            ensure!(
                same_val(bm.get(k)),
                "C14",
                "map",
                "BTreeMap<Arc<T>,_> probed with &T finds {:?} for {:?}",
                bm.get(k),
                vals[i]
            );
        }
        let k2: &HeaderSlice<HeaderWithLength<u8>, [u8]> = &y.hwl;
        let same_val2 = |f: Option<&usize>| {
            f.map(|n| {
                vals[*n].h == vals[i].h && vals[*n].s == vals[i].s && vals[*n].rec == vals[i].rec
            })
            .unwrap_or(false)
        };
        ensure!(
            same_val2(hwm.get(k2)),
            "C14",
            "map",
            "HashMap keyed by header-slice with recorded length finds {:?} for {:?}",
            hwm.get(k2),
            vals[i]
        );
        st.counts.bump("cmp.map-probes");
    }
    // Display and str
    for w in ["", "a", "ab", "abc", "b", "ba", "zzz"] {
        for v in ["", "a", "ab", "abd", "c"] {
            let (x, y): (Arc<str>, Arc<str>) = (Arc::from(w), Arc::from(v));
            same_as_value(
                &format!("Arc<str> {:?} vs {:?}", w, v),
                &obs_ord!(x, y),
                &obs_ord!(w, v),
                false,
            )?;
            ensure!(
                format!("{}", x) == w
                    && format!("{:?}", x) == format!("{:?}", w)
                    && hash_of(&x) == hash_of(w),
                "C14",
                "fmt",
                "Arc<str> Display/Debug/hash differ from the str's for {:?}",
                w
            );
            st.counts.bump("cmp.pairs");
        }
    }
    let fl: Arc<f64> = Arc::new(3.14159);
    ensure!(
        format!("{:8.2}|{:<8}|{:+}|{:e}", fl, fl, fl, *fl) == format!("{:8.2}|{:<8}|{:+}|{:e}", 3.14159f64, 3.14159f64, 3.14159f64, 3.14159f64),
        "C14",
        "fmt",
        "Arc<f64> Display with flags differs from the value's"
    );
    let n: Arc<u64> = Arc::new(42);
    ensure!(
        format!("{}", n) == "42" && format!("{:>5}", n) == format!("{:>5}", 42u64),
        "C14",
        "fmt",
        "Arc Display differs from the value's"
    );
    Ok(())
}

pub fn class_partial(vals: &Vec<Val>, st: &mut CmpStats) -> R {
    class_body!(f64, obs_po, vals, st, false, false)
}

pub fn class_eq(vals: &Vec<Val>, st: &mut CmpStats) -> R {
    class_body!(EqOnly, obs_eq, vals, st, false, false)
}

/// Seeded larger values (longer slices, wider alphabet, all five float letters).
pub fn seeded(seed: u64, n: usize) -> Vec<Val> {
    let mut rng = Rng::new(seed);
    (0..n)
        .map(|_| {
            let len = rng.below(9);
            let s: Vec<u8> = (0..len).map(|_| rng.below(5) as u8).collect();
            Val {
                h: rng.below(5) as u8,
                rec: if rng.below(4) == 0 {
                    len + 1 + rng.below(3)
                } else {
                    len
                },
                s,
            }
        })
        .collect()
}

// ---------------------------------------------------------------------------------------------
// trait-object payloads: values of *different concrete types and sizes* can be equal / ordered / hashed alike by
// their own impls; a handle must answer exactly like the values do.

pub trait DynVal: Send + Sync {
    fn v(&self) -> u32;
}
impl PartialEq for dyn DynVal {
    fn eq(&self, o: &dyn DynVal) -> bool {
        self.v() == o.v()
    }
}
impl Eq for dyn DynVal {}
impl PartialOrd for dyn DynVal {
    fn partial_cmp(&self, o: &dyn DynVal) -> Option<Ordering> {
        Some(self.v().cmp(&o.v()))
    }
}
impl Ord for dyn DynVal {
    fn cmp(&self, o: &dyn DynVal) -> Ordering {
        self.v().cmp(&o.v())
    }
}
impl Hash for dyn DynVal {
    fn hash<H: Hasher>(&self, h: &mut H) {
        self.v().hash(h)
    }
}
impl std::fmt::Debug for dyn DynVal {
    fn fmt(&self, f: &mut std::fmt::Formatter) -> std::fmt::Result {
        write!(f, "DynVal({})", self.v())
    }
}
struct Small(u32);
struct Wide(u32, [u64; 5]);
struct Unit3;
impl DynVal for Small {
    fn v(&self) -> u32 {
        self.0
    }
}
impl DynVal for Wide {
    fn v(&self) -> u32 {
        self.0
    }
}
impl DynVal for Unit3 {
    fn v(&self) -> u32 {
        3
    }
}

pub fn class_dyn(st: &mut CmpStats) -> R {
    fn mk(kind: usize, v: u32) -> Arc<dyn DynVal> {
        match kind {
            0 => unsafe { Arc::from_raw(Arc::into_raw(Arc::new(Small(v))) as *const dyn DynVal) },
            1 => unsafe { Arc::from_raw(Arc::into_raw(Arc::new(Wide(v, [9; 5]))) as *const dyn DynVal) },
            _ => unsafe { Arc::from_raw(Arc::into_raw(Arc::new(Unit3)) as *const dyn DynVal) },
        }
    }
    for ka in 0..3 {
        for kb in 0..3 {
            for va in 2..=4u32 {
                for vb in 2..=4u32 {
                    let (a, b) = (mk(ka, va), mk(kb, vb));
                    let what = format!("Arc<dyn Trait> over concrete kinds {}/{} holding {}/{}", ka, kb, a.v(), b.v());
                    let (ra, rb): (&dyn DynVal, &dyn DynVal) = (&*a, &*b);
                    ensure!(
                        (a == b) == (ra == rb) && (a != b) == (ra != rb) && (a != b) != (a == b),
                        "C14",
                        "cmp",
                        "{}: ==/!= through the handles is {}/{}, on the values {}/{}",
                        what,
                        a == b,
                        a != b,
                        ra == rb,
                        ra != rb
                    );
                    ensure!(
                        a.cmp(&b) == ra.cmp(rb)
                            && a.partial_cmp(&b) == ra.partial_cmp(rb)
                            && (a < b) == (ra < rb)
                            && (a <= b) == (ra <= rb)
                            && (a > b) == (ra > rb)
                            && (a >= b) == (ra >= rb),
                        "C14",
                        "cmp",
                        "{}: ordering through the handles differs from the values'",
                        what
                    );
                    ensure!(
                        hash_of(&a) == hash_of(ra) && format!("{:?}", a) == format!("{:?}", ra),
                        "C14",
                        "cmp",
                        "{}: hash or Debug through the handle differs from the value's",
                        what
                    );
                    ensure!(
                        (a == b) == (a.cmp(&b) == Ordering::Equal) && (!(a == b) || hash_of(&a) == hash_of(&b)),
                        "C14",
                        "cmp",
                        "{}: == disagrees with cmp, or equal handles hash differently",
                        what
                    );
                    st.counts.bump("cmp.dyn.pairs");
                }
            }
        }
    }
    Ok(())
}

