//! ctor engine [C06]: every constructor delivers exactly the given contents, in order, moving each
//! owned element once (no clone, no extra or missing destructor), and releases the source
//! container's own storage.

use crate::ensure;
use crate::shadow;
use crate::tk::{self, Pay};
use crate::util::*;
use std::collections::BTreeSet;
use triomphe::{Arc, HeaderSlice, HeaderWithLength, ThinArc, UniqueArc};

pub struct CtStats {
    pub counts: Counts,
    pub cases: BTreeSet<u64>,
    pub sample: Vec<String>,
}
impl CtStats {
    pub fn new() -> Self {
        CtStats {
            counts: Counts::default(),
            cases: BTreeSet::new(),
            sample: Vec::new(),
        }
    }
}

/// Iterator over owned tracked elements with a configurable size_hint regime.
pub struct It<E> {
    items: std::vec::IntoIter<E>,
    regime: u8, // 0 exact (ESI), 1 exact hint, 2 lower<upper, 3 unknown, 4 lower=0 upper exact, 5 lower<=1 upper huge
}
impl<E> Iterator for It<E> {
    type Item = E;
    fn next(&mut self) -> Option<E> {
        self.items.next()
    }
    fn size_hint(&self) -> (usize, Option<usize>) {
        let n = self.items.len();
        match self.regime {
            0 | 1 => (n, Some(n)),
            2 => (n / 2, Some(n + 3)),
            3 => (0, None),
            4 => (0, Some(n)),
            // honest but very loose upper bound
            _ => (n.min(1), Some(usize::MAX / 2)),
        }
    }
}
impl<E> ExactSizeIterator for It<E> {}

fn make_items<E: Pay>(n: usize, tag0: u64) -> (Vec<E>, Vec<u32>) {
    let v: Vec<E> = (0..n)
        .map(|k| E::make((tag0 + k as u64) % 200 + 1))
        .collect();
    let ids = shadow::untracked(|| v.iter().map(|e| e.id()).collect());
    (v, ids)
}

fn with_capacity<E>(mut v: Vec<E>, capmode: usize) -> Vec<E> {
    let n = v.len();
    let extra = match capmode {
        0 => 0,
        1 => 1,
        2 => n,
        _ => 37,
    };
    if extra > 0 {
        v.reserve_exact(extra);
    } else {
        v.shrink_to_fit();
    }
    v
}

fn check_slice<E: Pay>(what: &str, got: &[E], ids: &[u32]) -> R {
    ensure!(
        got.len() == ids.len(),
        "C06",
        "ctor",
        "{}: result has {} elements, input had {}",
        what,
        got.len(),
        ids.len()
    );
    for (k, e) in got.iter().enumerate() {
        if let Err(m) = e.check() {
            return viol("C06", "ctor", format!("{}: element {}: {}", what, k, m));
        }
        if E::HAS_ID {
            ensure!(e.id() == ids[k], "C06", "ctor", "{}: element {} is id {} but the input had id {} there (reordered, duplicated or cloned)", what, k, e.id(), ids[k]);
        }
    }
    Ok(())
}

pub const NCTORS: usize = 12;

/// One construction. `H` header payload, `E` element payload.
pub fn case<H: Pay, E: Pay>(
    ctor: usize,
    n: usize,
    regime: u8,
    capmode: usize,
    st: &mut CtStats,
) -> R {
    let zst = std::mem::size_of::<E>() == 0;
    let what = format!(
        "ctor=K{} H={} E={} len={} hint-regime={} cap-mode={}",
        ctor,
        H::NAME,
        E::NAME,
        n,
        regime,
        capmode
    );
    let id0 = tk::next_id();
    shadow::reset();
    let _ = tk::take_findings();
    let z0 = tk::z_live();
    let live0 = tk::live();
    let (items, ids) = shadow::tracked(|| make_items::<E>(n, (ctor * 7 + n) as u64));
    let items = shadow::tracked(|| with_capacity(items, capmode));
    let src_buf = if items.capacity() > 0 && !zst {
        items.as_ptr() as usize
    } else {
        0
    };
    let header = shadow::tracked(|| H::make(150));
    let hid = header.id();
    let n_in = n as i64 + if H::HAS_ID { 1 } else { 0 };
    let n_in_id = if E::HAS_ID { n as i64 } else { 0 } + if H::HAS_ID { 1 } else { 0 };
    let clones0 = tk::clones();
    let blocks0 = shadow::live_count();
    let mark = shadow::mark();
    let uses_header;
    let src_is_vec; // the constructor takes the Vec itself (its buffer must be released by the call)
    enum Out<H: Pay, E: Pay> {
        Slice(Arc<[E]>),
        Hs(Arc<HeaderSlice<H, [E]>>),
        Thin(ThinArc<H, E>),
        Uslice(UniqueArc<[E]>),
    }
    let name;
    let r = shadow::tracked(|| {
        catch(|| -> (Out<H, E>, &'static str, bool, bool) {
            match ctor {
                0 => (
                    Out::Slice(Arc::from(items)),
                    "From<Vec<T>> for Arc<[T]>",
                    false,
                    true,
                ),
                1 => (
                    Out::Slice(
                        It {
                            items: items.into_iter(),
                            regime,
                        }
                        .collect(),
                    ),
                    "FromIterator for Arc<[T]>",
                    false,
                    false,
                ),
                2 => (
                    Out::Uslice(
                        It {
                            items: items.into_iter(),
                            regime,
                        }
                        .collect(),
                    ),
                    "FromIterator for UniqueArc<[T]>",
                    false,
                    false,
                ),
                3 => (
                    Out::Hs(Arc::from_header_and_iter(
                        header,
                        It {
                            items: items.into_iter(),
                            regime: 0,
                        },
                    )),
                    "Arc::from_header_and_iter",
                    true,
                    false,
                ),
                4 => (
                    Out::Hs(Arc::from_header_and_vec(header, items)),
                    "Arc::from_header_and_vec",
                    true,
                    true,
                ),
                5 => (
                    Out::Thin(ThinArc::from_header_and_iter(
                        header,
                        It {
                            items: items.into_iter(),
                            regime: 0,
                        },
                    )),
                    "ThinArc::from_header_and_iter",
                    true,
                    false,
                ),
                6 => (
                    Out::Thin(Arc::into_thin(Arc::from_header_and_vec(
                        HeaderWithLength::new(header, n),
                        items,
                    ))),
                    "Arc::from_header_and_vec(HeaderWithLength)+into_thin",
                    true,
                    true,
                ),
                7 => {
                    // header erasure: HeaderSlice<(),[T]> -> [T]
                    let f: Arc<HeaderSlice<(), [E]>> = Arc::from_header_and_vec((), items);
                    drop(header);
                    (
                        Out::Slice(f.into()),
                        "from_header_and_vec((),v) -> Arc<[T]>",
                        false,
                        true,
                    )
                }
                8 => {
                    // and back: [T] -> HeaderSlice<(),[T]> -> [T]
                    let a: Arc<[E]> = Arc::from(items);
                    let f: Arc<HeaderSlice<(), [E]>> = a.into();
                    drop(header);
                    (
                        Out::Slice(f.into()),
                        "Arc<[T]> -> HeaderSlice<(),[T]> -> Arc<[T]>",
                        false,
                        true,
                    )
                }
                9 => (
                    Out::Slice(items.into_iter().collect()),
                    "FromIterator(vec::IntoIter)",
                    false,
                    false,
                ),
                10 => (
                    Out::Slice(items.into_iter().filter(|_| true).collect()),
                    "FromIterator(filter: lower bound 0)",
                    false,
                    false,
                ),
                _ => (
                    Out::Slice(items.into_iter().rev().rev().map(|x| x).collect()),
                    "FromIterator(rev.rev.map: exact hint)",
                    false,
                    false,
                ),
            }
        })
    });
    let (out, nm, uh, sv) = match r {
        Ok(x) => x,
        Err(msg) => {
            ensure!(
                zst && msg.contains("ZST"),
                "C06",
                "ctor",
                "{}: constructor panicked: {}",
                what,
                msg
            );
            // refused up front: every input must still have been destroyed exactly once
            ensure!(
                tk::live() == live0 && tk::z_live() == z0,
                "C06",
                "ctor",
                "{}: refused constructor left {} tracked / {} zero-sized inputs alive",
                what,
                tk::live() - live0,
                tk::z_live() - z0
            );
            let f = tk::take_findings();
            ensure!(
                f.is_empty(),
                "C06",
                "ctor",
                "{}: refused constructor: {}",
                what,
                f.join("; ")
            );
            st.counts.bump("ctor.refused-zst");
            tk::reset_range(id0);
            return Ok(());
        }
    };
    name = nm;
    uses_header = uh;
    src_is_vec = sv;
    // nothing cloned, nothing destroyed, nothing duplicated by the construction
    ensure!(
        tk::clones() == clones0,
        "C06",
        "ctor",
        "{} ({}): {} elements were cloned instead of moved",
        what,
        name,
        tk::clones() - clones0
    );
    let expect_live = live0 + n_in_id - if uses_header || !H::HAS_ID { 0 } else { 1 };
    ensure!(
        tk::live() == expect_live,
        "C06",
        "ctor",
        "{} ({}): {} tracked values alive right after construction, expected {}",
        what,
        name,
        tk::live(),
        expect_live
    );
    let _ = n_in;
    match &out {
        Out::Slice(a) => {
            check_slice(&what, &**a, &ids)?;
            ensure!(
                Arc::count(a) == 1,
                "C06,C17",
                "ctor",
                "{} ({}): fresh Arc has count {}",
                what,
                name,
                Arc::count(a)
            );
        }
        Out::Uslice(u) => check_slice(&what, &**u, &ids)?,
        Out::Hs(a) => {
            check_slice(&what, &a.slice, &ids)?;
            if let Err(m) = a.header.check() {
                return viol("C06", "ctor", format!("{}: header: {}", what, m));
            }
            ensure!(
                !H::HAS_ID || a.header.id() == hid,
                "C06",
                "ctor",
                "{} ({}): header is not the one given",
                what,
                name
            );
        }
        Out::Thin(t) => {
            check_slice(&what, &t.slice, &ids)?;
            ensure!(
                t.header.length == n,
                "C06,C10",
                "ctor",
                "{} ({}): recorded length {}",
                what,
                name,
                t.header.length
            );
            ensure!(
                !H::HAS_ID || t.header.header.id() == hid,
                "C06",
                "ctor",
                "{} ({}): header is not the one given",
                what,
                name
            );
        }
    }
    if shadow::active() {
        // the source container's own storage was released during the call ...
        if src_is_vec && src_buf != 0 {
            let evs = shadow::events_since(mark).unwrap_or_default();
            ensure!(
                evs.iter().any(|e| e.kind == b'F' && e.addr == src_buf),
                "C06",
                "ctor",
                "{} ({}): the source Vec's buffer {:#x} was not released by the constructor",
                what,
                name,
                src_buf
            );
        }
        // ... and exactly one new block (the Arc's) remains; inputs' own heap parts are unchanged
        let now = shadow::live_count() as i64;
        let src_gone = if src_buf != 0 { 1 } else { 0 };
        ensure!(
            now == blocks0 as i64 + 1 - src_gone,
            "C06",
            "ctor",
            "{} ({}): {} live blocks after construction, expected {} (one Arc block, source buffer released)",
            what,
            name,
            now,
            blocks0 as i64 + 1 - src_gone
        );
    }
    // release the result: every input destroyed exactly once, nothing left
    shadow::tracked(|| drop(out));
    let f = tk::take_findings();
    ensure!(
        f.is_empty(),
        "C06",
        "ctor",
        "{} ({}): on release: {}",
        what,
        name,
        f.join("; ")
    );
    ensure!(
        tk::live() == live0 && tk::z_live() == z0,
        "C06",
        "ctor",
        "{} ({}): {} tracked / {} zero-sized values alive after releasing the result",
        what,
        name,
        tk::live() - live0,
        tk::z_live() - z0
    );
    if E::HAS_ID {
        for id in &ids {
            ensure!(
                tk::state(*id) == tk::DEAD,
                "C06",
                "ctor",
                "{} ({}): input element id={} was never destroyed",
                what,
                name,
                id
            );
        }
    }
    if shadow::active() {
        if let Some(x) = shadow::take_findings().first() {
            return viol(
                "C06,C05",
                "ctor",
                format!("{} ({}): allocator monitor: {:?}", what, name, x),
            );
        }
        let lb = shadow::live_blocks();
        ensure!(
            lb.is_empty(),
            "C06",
            "ctor",
            "{} ({}): blocks left behind: {:x?}",
            what,
            name,
            &lb[..lb.len().min(3)]
        );
    }
    st.counts.bump(&format!("ctor.{}", name));
    st.counts.bump("ctor.constructions");
    let lenclass = match n {
        0 => "0",
        1 => "1",
        2..=8 => "2-8",
        9..=70 => "9-70",
        _ => "big",
    };
    st.cases.insert(hash64(&format!(
        "{}|{}|{}|{}|{}|{}",
        name,
        H::NAME,
        E::NAME,
        lenclass,
        regime,
        capmode
    )));
    if st.sample.len() < 8 && n % 17 == 3 {
        st.sample.push(format!("{} via {}: contents, order, identity, clone count 0, destructors and allocator events checked", what, name));
    }
    tk::reset_range(id0);
    Ok(())
}

/// Sized constructors: new / From<T> / From<Box<T>> / UniqueArc::new / Default.
pub fn sized_case<P: Pay + Default>(ctor: usize, st: &mut CtStats) -> R {
    let what = format!("sized ctor=S{} P={}", ctor, P::NAME);
    let id0 = tk::next_id();
    shadow::reset();
    let live0 = tk::live();
    let z0 = tk::z_live();
    let clones0 = tk::clones();
    let (a, id, name, boxed): (Arc<P>, u32, &'static str, usize) = shadow::tracked(|| match ctor {
        0 => {
            let v = P::make(9);
            let id = v.id();
            (Arc::new(v), id, "Arc::new", 0)
        }
        1 => {
            let v = P::make(9);
            let id = v.id();
            (Arc::from(v), id, "From<T>", 0)
        }
        2 => {
            let b = Box::new(P::make(9));
            let id = b.id();
            let addr = &*b as *const P as usize;
            (
                Arc::from(b),
                id,
                "From<Box<T>>",
                if std::mem::size_of::<P>() > 0 {
                    addr
                } else {
                    0
                },
            )
        }
        3 => {
            let v = P::make(9);
            let id = v.id();
            (UniqueArc::new(v).shareable(), id, "UniqueArc::new", 0)
        }
        _ => {
            let a: Arc<P> = Arc::default();
            let id = a.id();
            (a, id, "Default", 0)
        }
    });
    ensure!(
        tk::clones() == clones0,
        "C06",
        "ctor",
        "{} ({}): value cloned instead of moved",
        what,
        name
    );
    if let Err(m) = a.check() {
        return viol("C06", "ctor", format!("{} ({}): {}", what, name, m));
    }
    ensure!(
        a.id() == id && (ctor == 4 || a.tag() == if P::HAS_ID { 9 } else { 0 }),
        "C06",
        "ctor",
        "{} ({}): contents differ from the input",
        what,
        name
    );
    ensure!(
        Arc::count(&a) == 1,
        "C06",
        "ctor",
        "{} ({}): fresh Arc has count {}",
        what,
        name,
        Arc::count(&a)
    );
    if shadow::active() {
        if boxed != 0 {
            ensure!(
                shadow::live_layout(boxed).is_none(),
                "C06",
                "ctor",
                "{} ({}): the source Box's storage was not released",
                what,
                name
            );
        }
        let extra = if P::NAME == "TB" { 1 } else { 0 };
        ensure!(
            shadow::live_count() == 1 + extra,
            "C06",
            "ctor",
            "{} ({}): {} live blocks after construction",
            what,
            name,
            shadow::live_count()
        );
    }
    shadow::tracked(|| drop(a));
    let f = tk::take_findings();
    ensure!(
        f.is_empty(),
        "C06",
        "ctor",
        "{} ({}): on release: {}",
        what,
        name,
        f.join("; ")
    );
    ensure!(
        tk::live() == live0 && tk::z_live() == z0,
        "C06",
        "ctor",
        "{} ({}): value not destroyed exactly once",
        what,
        name
    );
    if shadow::active() {
        ensure!(
            shadow::live_count() == 0,
            "C06",
            "ctor",
            "{} ({}): blocks left behind",
            what,
            name
        );
    }
    st.counts.bump(&format!("ctor.{}", name));
    st.counts.bump("ctor.constructions");
    st.cases.insert(hash64(&format!("{}|{}", name, P::NAME)));
    tk::reset_range(id0);
    Ok(())
}

/// Copy / str inputs: contents compared by value.
pub fn copy_cases(n: usize, st: &mut CtStats) -> R {
    shadow::reset();
    let v: Vec<u32> = (0..n as u32).map(|k| k.wrapping_mul(2654435761)).collect();
    let s: String = (0..n).map(|k| ['a', 'é', 'z', '∂', '日', 'q', '😀', 'b'][k % 8]).collect();
    let what = format!("copy/str len={}", n);
    let a: Arc<[u32]> = shadow::tracked(|| Arc::from(&v[..]));
    ensure!(
        &*a == &v[..],
        "C06",
        "ctor",
        "{}: From<&[T]> contents differ",
        what
    );
    let b = shadow::tracked(|| Arc::from_header_and_slice(7u16, &v[..]));
    ensure!(
        b.header == 7 && b.slice == v[..],
        "C06",
        "ctor",
        "{}: from_header_and_slice contents differ",
        what
    );
    let t = shadow::tracked(|| ThinArc::from_header_and_slice(9u8, &v[..]));
    ensure!(
        t.header.header == 9 && t.header.length == n && t.slice == v[..],
        "C06,C10",
        "ctor",
        "{}: ThinArc::from_header_and_slice contents differ",
        what
    );
    let c: Arc<str> = shadow::tracked(|| Arc::from(&s[..]));
    ensure!(
        &*c == s.as_str(),
        "C06",
        "ctor",
        "{}: From<&str> contents differ",
        what
    );
    let sbuf = s.as_ptr() as usize;
    let s2 = shadow::tracked(|| s.clone());
    let s2buf = s2.as_ptr() as usize;
    let d: Arc<str> = shadow::tracked(|| Arc::from(s2));
    ensure!(
        &*d == s.as_str(),
        "C06",
        "ctor",
        "{}: From<String> contents differ",
        what
    );
    if shadow::active() && n > 0 {
        ensure!(
            shadow::live_layout(s2buf).is_none(),
            "C06",
            "ctor",
            "{}: From<String> did not release the String's buffer",
            what
        );
    }
    let _ = sbuf;
    // owned inputs of plain data (no destructor): the source storage must still be released
    let bx = shadow::tracked(|| Box::new([n as u64, 2, 3, 4, 5]));
    let bx_addr = &*bx as *const [u64; 5] as usize;
    let before = shadow::live_count();
    let fb: Arc<[u64; 5]> = shadow::tracked(|| Arc::from(bx));
    ensure!(
        *fb == [n as u64, 2, 3, 4, 5],
        "C06",
        "ctor",
        "{}: From<Box<T>> contents differ",
        what
    );
    let vc = shadow::tracked(|| v.clone());
    let vc_addr = vc.as_ptr() as usize;
    let fv: Arc<[u32]> = shadow::tracked(|| Arc::from(vc));
    ensure!(
        &*fv == &v[..],
        "C06",
        "ctor",
        "{}: From<Vec<T>> contents differ",
        what
    );
    let vh = shadow::tracked(|| v.clone());
    let vh_addr = vh.as_ptr() as usize;
    let fh = shadow::tracked(|| Arc::from_header_and_vec(5u8, vh));
    ensure!(
        fh.header == 5 && fh.slice == v[..],
        "C06",
        "ctor",
        "{}: from_header_and_vec contents differ",
        what
    );
    if shadow::active() {
        ensure!(
            shadow::live_layout(bx_addr).is_none(),
            "C06",
            "ctor",
            "{}: From<Box<T>> did not release the Box's storage (plain-data T)",
            what
        );
        if n > 0 {
            ensure!(shadow::live_layout(vc_addr).is_none() && shadow::live_layout(vh_addr).is_none(), "C06", "ctor", "{}: From<Vec<T>> / from_header_and_vec did not release the Vec's buffer (plain-data T)", what);
        }
        ensure!(
            shadow::live_count() == before - 1 + 3,
            "C06",
            "ctor",
            "{}: {} live blocks after three plain-data constructions, expected {}",
            what,
            shadow::live_count(),
            before + 2
        );
    }
    shadow::tracked(|| {
        drop(fb);
        drop(fv);
        drop(fh);
    });
    let e = shadow::tracked(|| Arc::from_header_and_str(3u64, &s));
    ensure!(
        e.header == 3 && &e.slice == s.as_str(),
        "C06",
        "ctor",
        "{}: from_header_and_str contents differ",
        what
    );
    shadow::tracked(|| {
        drop(a);
        drop(b);
        drop(t);
        drop(c);
        drop(d);
        drop(e);
    });
    if shadow::active() {
        if let Some(x) = shadow::take_findings().first() {
            return viol(
                "C06,C05",
                "ctor",
                format!("{}: allocator monitor: {:?}", what, x),
            );
        }
        ensure!(
            shadow::live_count() == 0,
            "C06",
            "ctor",
            "{}: blocks left behind",
            what
        );
    }
    st.counts.add("ctor.copy/str", 9);
    st.counts.add("ctor.constructions", 9);
    st.cases.insert(hash64(&format!("copy|{}", n.min(80))));
    Ok(())
}
