//! conc engine: 2-4 real threads (or Miri threads) running short programs on their own handles to
//! common allocations. The race detectors (Miri, TSan), ASan and the monitors below are the
//! oracles; the count hook injects delays between the crate's only synchronisation points and
//! records every count operation for the offline count-history checker (M4).
//!
//! scenarios: clonedrop [C02]  uniqpoll [C03]  cow [C08]  unwraprace [C09]

use crate::ensure;
use crate::hist::{conv_handle, drop_handle, dup_handle, view, H};
use crate::shadow;
use crate::thin::{conv2, drop2, dup2, view2, H2};
use crate::tk::{self, Pay, T8, TV};
use crate::util::*;
use std::collections::BTreeSet;
use std::sync::atomic::{AtomicU64, AtomicUsize, Ordering::Relaxed};
use std::sync::Barrier;
use triomphe::{Arc, ArcUnion, ArcUnionBorrow, HeaderSlice, HeaderWithLength, OffsetArc, ThinArc, UniqueArc};

// ---------------------------------------------------------------------------------------------
// count-event sink (needs the cfg(triomphe_verif) hook in /repo)

#[derive(Clone, Copy, Debug)]
pub struct Rec {
    pub tid: u8,
    pub addr: usize,
    pub op: u8, // b'L' load, b'A' fetch_add, b'S' fetch_sub, b'X' other
    pub value: usize,
    pub order: u8, // advisory only: 0 Relaxed 1 Release 2 Acquire 3 AcqRel 4 SeqCst
}

#[cfg(triomphe_verif)]
mod sink {
    use super::Rec;
    use std::cell::{Cell, RefCell};
    use std::sync::atomic::{AtomicU8, Ordering::Relaxed};
    use triomphe::verif_hooks::{set_hook, Event, Op};

    thread_local! {
        static LOG: RefCell<Vec<Rec>> = const { RefCell::new(Vec::new()) };
        static RNG: Cell<u64> = const { Cell::new(0x2545F4914F6CDD1D) };
    }
    static DELAY: AtomicU8 = AtomicU8::new(0);
    pub const HOOKED: bool = true;

    // forced preemption: one chosen thread is held at one chosen count operation (before or after
    // it) until every other participant has finished its program (or a yield budget runs out).
    // Only relaxed atomics and yields: no happens-before edge is added.
    use std::sync::atomic::{AtomicBool, AtomicUsize};
    static ARMED: AtomicBool = AtomicBool::new(false);
    static PAUSE_TID: AtomicU8 = AtomicU8::new(255);
    static PAUSE_AT: AtomicUsize = AtomicUsize::new(0);
    static PAUSE_PHASE: AtomicU8 = AtomicU8::new(0);
    static DONE: AtomicUsize = AtomicUsize::new(0);
    static NEED: AtomicUsize = AtomicUsize::new(0);
    thread_local! {
        static ORD: Cell<usize> = const { Cell::new(0) };
    }
    pub fn set_pause(tid: u8, at: usize, phase: u8) {
        PAUSE_TID.store(tid, Relaxed);
        PAUSE_AT.store(at, Relaxed);
        PAUSE_PHASE.store(phase, Relaxed);
    }
    pub fn arm(participants: usize) {
        DONE.store(0, Relaxed);
        NEED.store(participants.saturating_sub(1), Relaxed);
        ORD.with(|c| c.set(0));
        ARMED.store(true, Relaxed);
    }
    pub fn disarm() {
        ARMED.store(false, Relaxed);
    }
    pub fn thread_done() {
        DONE.fetch_add(1, Relaxed);
    }
    pub fn ordinal() -> usize {
        ORD.try_with(|c| c.get()).unwrap_or(0)
    }
    fn maybe_pause(done: bool) {
        let ord = ORD.try_with(|c| {
            let o = c.get();
            if !done {
                c.set(o + 1);
                o
            } else {
                o.wrapping_sub(1)
            }
        });
        let ord = match ord {
            Ok(o) => o,
            Err(_) => return,
        };
        if !ARMED.load(Relaxed) || PAUSE_TID.load(Relaxed) != crate::tk::thread_ix() {
            return;
        }
        if ord != PAUSE_AT.load(Relaxed) || PAUSE_PHASE.load(Relaxed) != done as u8 {
            return;
        }
        let budget = if cfg!(miri) { 400 } else { 20_000 };
        let mut n = 0;
        while DONE.load(Relaxed) < NEED.load(Relaxed) && n < budget {
            std::thread::yield_now();
            n += 1;
        }
    }

    fn delay() {
        let mode = DELAY.load(Relaxed);
        if mode == 0 {
            return;
        }
        let r = RNG
            .try_with(|c| {
                let mut x = c.get();
                x ^= x << 13;
                x ^= x >> 7;
                x ^= x << 17;
                c.set(x);
                x
            })
            .unwrap_or(0);
        match mode {
            1 => {
                if r % 3 == 0 {
                    std::thread::yield_now();
                }
            }
            _ => {
                let n = r % 96;
                for _ in 0..n {
                    std::hint::spin_loop();
                }
                if r % 17 == 0 {
                    std::thread::yield_now();
                }
            }
        }
    }

    pub static AFTER_FREE: AtomicUsize = AtomicUsize::new(0);

    fn on_event(ev: &Event) {
        delay();
        maybe_pause(ev.done);
        if !ev.done && crate::shadow::state_at(ev.addr) == 2 {
            // the count lives at the start of a block the allocator monitor has already seen freed
            AFTER_FREE.store(ev.addr, Relaxed);
        }
        if !ev.done {
            return;
        }
        let op = match ev.op {
            Op::Load => b'L',
            Op::FetchAdd => b'A',
            Op::FetchSub => b'S',
            _ => b'X',
        };
        use std::sync::atomic::Ordering as O;
        let order = match ev.order {
            O::Relaxed => 0,
            O::Release => 1,
            O::Acquire => 2,
            O::AcqRel => 3,
            _ => 4,
        };
        let rec = Rec {
            tid: crate::tk::thread_ix(),
            addr: ev.addr,
            op,
            value: ev.value,
            order,
        };
        let _ = LOG.try_with(|l| {
            if let Ok(mut l) = l.try_borrow_mut() {
                crate::shadow::untracked(|| l.push(rec));
            }
        });
    }

    pub fn install(delay_mode: u8, seed: u64) {
        DELAY.store(delay_mode, Relaxed);
        RNG.with(|c| c.set(seed | 1));
        set_hook(Some(on_event));
    }
    pub fn seed_thread(seed: u64) {
        RNG.with(|c| c.set(seed | 1));
    }
    pub fn take() -> Vec<Rec> {
        LOG.with(|l| std::mem::take(&mut *l.borrow_mut()))
    }
}

#[cfg(not(triomphe_verif))]
mod sink {
    use super::Rec;
    pub const HOOKED: bool = false;
    pub fn install(_delay_mode: u8, _seed: u64) {}
    pub fn seed_thread(_seed: u64) {}
    pub fn take() -> Vec<Rec> {
        Vec::new()
    }
    pub static AFTER_FREE: std::sync::atomic::AtomicUsize = std::sync::atomic::AtomicUsize::new(0);
    pub fn set_pause(_tid: u8, _at: usize, _phase: u8) {}
    pub fn arm(_participants: usize) {}
    pub fn disarm() {}
    pub fn thread_done() {}
    pub fn ordinal() -> usize {
        0
    }
}

// ---------------------------------------------------------------------------------------------
// handle abstraction over the two worlds

pub trait Hnd: Sized + Send + 'static {
    fn kind(&self) -> &'static str;
    fn dup(&self, r: usize) -> Option<Self>;
    fn conv(self, r: usize) -> Option<Self>;
    /// non-atomic read of everything reachable + validity; returns a value fingerprint
    fn read(&self) -> R<u64>;
    /// (payload id of the header/value, heap block address or 0)
    fn ident(&self) -> R<(u32, usize)>;
    fn release(self);
}

impl<P: Pay + Send + Sync> Hnd for H<P> {
    fn kind(&self) -> &'static str {
        H::kind(self)
    }
    fn dup(&self, r: usize) -> Option<Self> {
        let (h, how) = dup_handle(self, r % 4);
        if how == "none" {
            std::mem::forget(h);
            None
        } else {
            Some(h)
        }
    }
    fn conv(self, r: usize) -> Option<Self> {
        conv_handle(self, r % 8, r & 8 == 0).0
    }
    fn read(&self) -> R<u64> {
        view(self).map(|v| v.tag)
    }
    fn ident(&self) -> R<(u32, usize)> {
        view(self).map(|v| (v.id, v.heap.unwrap_or(0)))
    }
    fn release(self) {
        drop_handle(self)
    }
}

impl<A: Pay + Send + Sync, B: Pay + Send + Sync> Hnd for H2<A, B> {
    fn kind(&self) -> &'static str {
        H2::kind(self)
    }
    fn dup(&self, r: usize) -> Option<Self> {
        dup2(self, r).map(|x| x.0)
    }
    fn conv(self, r: usize) -> Option<Self> {
        Some(conv2(self, r).0)
    }
    fn read(&self) -> R<u64> {
        view2(self).map(|v| {
            v.htag
                .wrapping_mul(31)
                .wrapping_add(v.elems.iter().map(|e| e.1).sum::<u64>())
        })
    }
    fn ident(&self) -> R<(u32, usize)> {
        view2(self).map(|v| (v.hid, v.heap.unwrap_or(0)))
    }
    fn release(self) {
        drop2(self)
    }
}

// ---------------------------------------------------------------------------------------------

pub struct CStats {
    pub last_ords: Vec<usize>,
    pub counts: Counts,
    pub ileave: BTreeSet<u64>,
    pub nontrivial: BTreeSet<u64>,
    pub sample: Vec<String>,
}

impl CStats {
    pub fn new() -> CStats {
        CStats {
            last_ords: Vec::new(),
            counts: Counts::default(),
            ileave: BTreeSet::new(),
            nontrivial: BTreeSet::new(),
            sample: Vec::new(),
        }
    }
}

struct ThreadOut {
    ords: usize,
    viol: Option<Viol>,
    log: Vec<Rec>,
    trace: Vec<String>,
    reads: u64,
}

fn worker_prelude(tix: u8, seed: u64) {
    tk::set_thread_ix(tix);
    sink::seed_thread(
        seed.wrapping_mul(0x9E37_79B9)
            .wrapping_add(tix as u64 * 77 + 1),
    );
}

/// Run a random clone/convert/read/drop program on `hs`, releasing everything at the end.
fn run_prog<X: Hnd>(mut hs: Vec<X>, mut rng: Rng, len: usize, tix: u8) -> ThreadOut {
    let mut trace = Vec::new();
    let mut reads = 0u64;
    let mut viol = None;
    let mut body = |hs: &mut Vec<X>, trace: &mut Vec<String>, reads: &mut u64| -> R {
        for _ in 0..len {
            if hs.is_empty() {
                break;
            }
            let i = rng.below(hs.len());
            let r = rng.below(64);
            match rng.below(10) {
                0..=2 if hs.len() < 4 => {
                    if let Some(n) = hs[i].dup(r) {
                        trace.push(format!("t{}:dup {}->{}", tix, hs[i].kind(), n.kind()));
                        hs.push(n);
                    }
                }
                3..=4 => {
                    let h = hs.swap_remove(i);
                    let k = h.kind();
                    match h.conv(r) {
                        Some(n) => {
                            trace.push(format!("t{}:conv {}->{}", tix, k, n.kind()));
                            hs.push(n);
                        }
                        None => trace.push(format!("t{}:conv {}->released", tix, k)),
                    }
                }
                5..=7 => {
                    hs[i].read()?;
                    *reads += 1;
                    trace.push(format!("t{}:read {}", tix, hs[i].kind()));
                }
                _ => {
                    let h = hs.swap_remove(i);
                    trace.push(format!("t{}:drop {}", tix, h.kind()));
                    h.release();
                }
            }
        }
        // last look, then let go of everything
        for h in hs.iter() {
            h.read()?;
            *reads += 1;
        }
        while let Some(h) = hs.pop() {
            trace.push(format!("t{}:drop {}", tix, h.kind()));
            h.release();
        }
        Ok(())
    };
    if let Err(v) = body(&mut hs, &mut trace, &mut reads) {
        viol = Some(v);
        for h in hs.drain(..) {
            std::mem::forget(h);
        }
    }
    sink::thread_done();
    ThreadOut {
        ords: sink::ordinal(),
        viol,
        log: sink::take(),
        trace,
        reads,
    }
}

/// M4: offline checks over the recorded count operations.
fn check_counts(
    outs: &[ThreadOut],
    allocs: &[(u32, usize)],
    props: &'static str,
    st: &mut CStats,
) -> R {
    use std::collections::BTreeMap;
    let mut adds: BTreeMap<(usize, usize), i64> = BTreeMap::new();
    let mut sig = String::new();
    let mut readers_not_destroyer = false;
    for o in outs {
        for r in &o.log {
            if r.value == 0 && (r.op == b'A' || r.op == b'S') {
                return viol(
                    props,
                    "count-history",
                    format!("thread {} performed a count operation ({}) that observed 0: the count was touched after it had reached zero", r.tid, r.op as char),
                );
            }
            match r.op {
                b'A' => *adds.entry((r.addr, r.value)).or_insert(0) += 1,
                b'S' if r.value >= 2 => *adds.entry((r.addr, r.value - 1)).or_insert(0) -= 1,
                _ => {}
            }
            if r.op != b'L' {
                use std::fmt::Write;
                let _ = write!(sig, "{}{}{},", r.tid, r.op as char, r.value);
            }
        }
        sig.push('|');
    }
    for ((addr, k), bal) in &adds {
        ensure!(
            *bal == 0,
            props,
            "count-history",
            "count at {:#x}: {} more transitions {}->{} than {}->{} were observed: the observed values do not form one walk (lost or duplicated update)",
            addr,
            bal,
            k,
            k + 1,
            k + 1,
            k
        );
    }
    // the thread that saw 1 on its decrement must be the one that ran the destructor
    for (id, block) in allocs {
        if *block == 0 || allocs.iter().filter(|a| a.1 == *block).count() != 1 {
            continue;
        }
        let finals: Vec<u8> = outs
            .iter()
            .flat_map(|o| o.log.iter())
            .filter(|r| r.addr == *block && r.op == b'S' && r.value == 1)
            .map(|r| r.tid)
            .collect();
        if finals.len() == 1 && tk::state(*id) == tk::DEAD {
            let d = tk::dropper(*id);
            ensure!(
                d == finals[0],
                props,
                "count-history",
                "value id={} was destroyed by thread {} but thread {} performed the final decrement",
                id,
                d,
                finals[0]
            );
            st.counts.bump(&format!("conc.destroyer.t{}", d));
            if outs
                .iter()
                .enumerate()
                .any(|(t, o)| t as u8 != d && o.reads > 0)
            {
                readers_not_destroyer = true;
            }
        }
        ensure!(
            finals.len() <= 1,
            props,
            "count-history",
            "{} threads observed 1 on their decrement of the count at {:#x}",
            finals.len(),
            block
        );
    }
    let h = hash64(&sig);
    st.ileave.insert(h);
    if readers_not_destroyer {
        st.nontrivial.insert(h);
        if st.sample.len() < 6 && sig.len() > 40 && sig.len() < 600 {
            // per thread ("|"-separated): thread, operation (A fetch_add / S fetch_sub / X other), value observed
            st.sample.push(format!("count-operation history of one execution: {}", sig));
        }
    }
    Ok(())
}

fn finish(
    outs: Vec<ThreadOut>,
    allocs: &[(u32, usize)],
    props: &'static str,
    st: &mut CStats,
    scen: &str,
) -> Result<(), (Viol, Vec<String>)> {
    sink::disarm();
    st.last_ords = outs.iter().map(|o| o.ords).collect();
    let touched = sink::AFTER_FREE.swap(0, Relaxed);
    if touched != 0 {
        let props2: &'static str = match props {
            "C02" => "C02,C01",
            "C03" => "C03,C01",
            "C08" => "C08,C01",
            _ => "C09,C01",
        };
        return Err((
            Viol {
                props: props2,
                oracle: "count-after-free",
                msg: format!("[{}] a reference-count operation was performed at {:#x} after that block had been returned to the allocator", scen, touched),
            },
            outs.iter().flat_map(|o| o.trace.iter().cloned()).collect(),
        ));
    }
    let mut trace: Vec<String> = Vec::new();
    for o in &outs {
        trace.extend(o.trace.iter().cloned());
    }
    let fail = |v: Viol, trace: Vec<String>| Err((v, trace));
    for o in &outs {
        if let Some(v) = &o.viol {
            // a monitor inside a thread fired; attribute to the scenario's property as well
            let v = Viol {
                props: if v.props.contains(props) {
                    v.props
                } else {
                    props
                },
                oracle: v.oracle,
                msg: format!("[{}] {}", scen, v.msg),
            };
            return fail(v, trace);
        }
    }
    let f = tk::take_findings();
    if !f.is_empty() {
        return fail(
            Viol {
                props,
                oracle: "live",
                msg: format!("[{}] {}", scen, f.join("; ")),
            },
            trace,
        );
    }
    if let Some(x) = shadow::take_findings().first() {
        return fail(
            Viol {
                props,
                oracle: "alloc",
                msg: format!("[{}] allocator monitor: {:?}", scen, x),
            },
            trace,
        );
    }
    if let Err(v) = check_counts(&outs, allocs, props, st) {
        return fail(v, trace);
    }
    st.counts.add(
        "conc.count_events",
        outs.iter().map(|o| o.log.len() as u64).sum(),
    );
    st.counts
        .add("conc.payload_reads", outs.iter().map(|o| o.reads).sum());
    if st.sample.len() < 8 && trace.len() > 6 {
        st.sample.push(format!("thread programs of one execution: {}", trace.iter().take(30).cloned().collect::<Vec<_>>().join("; ")));
    }
    Ok(())
}

/// Join a worker; a panic inside it (the workers only call into the library and the monitors, so
/// this is one of the crate's own assertions or an abort-free crash) is a violation, not a harness error.
fn join_out<T>(h: std::thread::JoinHandle<T>, props: &'static str, scen: &str) -> Result<T, (Viol, Vec<String>)> {
    match h.join() {
        Ok(v) => Ok(v),
        Err(e) => {
            let msg = if let Some(s) = e.downcast_ref::<&str>() {
                s.to_string()
            } else if let Some(s) = e.downcast_ref::<String>() {
                s.clone()
            } else {
                "<non-string panic>".to_string()
            };
            sink::disarm();
            Err((
                Viol {
                    props,
                    oracle: "panic",
                    msg: format!("[{}] a thread panicked inside the library: {}", scen, msg),
                },
                vec![],
            ))
        }
    }
}

fn spawn<T: Send + 'static>(f: impl FnOnce() -> T + Send + 'static) -> std::thread::JoinHandle<T> {
    shadow::untracked(|| {
        std::thread::Builder::new()
            .stack_size(256 * 1024)
            .spawn(f)
            .expect("spawn")
    })
}

// ---------------------------------------------------------------------------------------------
// scenario: plaindrop [C02] -- payloads without drop glue (plain data, slices of it, str): every thread
// reads the payload non-atomically through its own handle, clones and drops, and lets go; whoever is
// last returns the block. A read that is not ordered before the deallocation is a data race (Miri,
// TSan) / use-after-free (ASan); natively the quarantine poison shows up in the checksum.

pub enum Plain {
    Arr(Arc<[u64; 4]>),
    Sl(Arc<[u64]>),
    Str(Arc<str>),
    Thin(ThinArc<u64, u64>),
    Off(OffsetArc<[u64; 4]>),
    Un(ArcUnion<u8, [u64; 4]>),
    Hs(Arc<HeaderSlice<u32, [u16]>>),
}
pub const PLAIN_KINDS: usize = 7;

impl Plain {
    fn make(kind: usize) -> Plain {
        let arr = [3u64, 5, 7, 11];
        match kind % PLAIN_KINDS {
            0 => Plain::Arr(Arc::new(arr)),
            1 => Plain::Sl(Arc::from(&arr[..])),
            2 => Plain::Str(Arc::from("plain \u{e9}t\u{e9}")),
            3 => Plain::Thin(ThinArc::from_header_and_slice(13, &arr[..])),
            4 => Plain::Off(Arc::into_raw_offset(Arc::new(arr))),
            5 => Plain::Un(ArcUnion::from_second(Arc::new(arr))),
            _ => Plain::Hs(Arc::from_header_and_slice(17u32, &[1u16, 2, 3][..])),
        }
    }
    fn kind(&self) -> &'static str {
        match self {
            Plain::Arr(_) => "Arc<[u64;4]>",
            Plain::Sl(_) => "Arc<[u64]>",
            Plain::Str(_) => "Arc<str>",
            Plain::Thin(_) => "ThinArc<u64,u64>",
            Plain::Off(_) => "OffsetArc<[u64;4]>",
            Plain::Un(_) => "ArcUnion<u8,[u64;4]> second",
            Plain::Hs(_) => "Arc<HeaderSlice<u32,[u16]>>",
        }
    }
    fn dup(&self) -> Plain {
        match self {
            Plain::Arr(a) => Plain::Arr(a.clone()),
            Plain::Sl(a) => Plain::Sl(a.clone()),
            Plain::Str(a) => Plain::Str(a.clone()),
            Plain::Thin(a) => Plain::Thin(a.clone()),
            Plain::Off(a) => Plain::Off(a.clone()),
            Plain::Un(a) => Plain::Un(a.clone()),
            Plain::Hs(a) => Plain::Hs(a.clone()),
        }
    }
    /// plain (non-atomic) read of the whole payload
    fn sum(&self) -> u64 {
        match self {
            Plain::Arr(a) => a.iter().sum(),
            Plain::Sl(a) => a.iter().sum(),
            Plain::Str(a) => a.bytes().map(|b| b as u64).sum(),
            Plain::Thin(a) => a.header.header + a.slice.iter().sum::<u64>(),
            Plain::Off(a) => a.iter().sum(),
            Plain::Un(a) => match a.borrow() {
                ArcUnionBorrow::Second(b) => b.iter().sum(),
                ArcUnionBorrow::First(b) => *b as u64,
            },
            Plain::Hs(a) => a.header as u64 + a.slice.iter().map(|x| *x as u64).sum::<u64>(),
        }
    }
}
unsafe impl Send for Plain {}

pub fn plaindrop(seed: u64, kind: usize, nthreads: usize, len: usize, st: &mut CStats) -> Result<(), (Viol, Vec<String>)> {
    let mut rng = Rng::new(seed);
    tk::set_thread_ix(0);
    shadow::reset();
    let root = shadow::tracked(|| Plain::make(kind));
    let name = root.kind();
    let expect = root.sum();
    let _ = sink::take();
    sink::arm(nthreads);
    let prog = move |h: Plain, mut rng: Rng, tix: u8| -> Result<u64, String> {
        let mut reads = 0u64;
        let mut extra: Vec<Plain> = Vec::new();
        for _ in 0..len {
            match rng.below(6) {
                0 | 1 => {
                    let s = h.sum();
                    reads += 1;
                    if s != expect {
                        return Err(format!("thread {} read checksum {} through its own {} handle, expected {}", tix, s, name, expect));
                    }
                }
                2 if extra.len() < 3 => extra.push(h.dup()),
                3 => {
                    if let Some(x) = extra.pop() {
                        let s = x.sum();
                        reads += 1;
                        drop(x);
                        if s != expect {
                            return Err(format!("thread {} read checksum {} through a clone, expected {}", tix, s, expect));
                        }
                    }
                }
                4 => std::thread::yield_now(),
                _ => {}
            }
        }
        // last look, then let go of everything
        let s = h.sum();
        reads += 1;
        drop(extra);
        drop(h);
        sink::thread_done();
        if s != expect {
            return Err(format!("thread {} read checksum {} just before releasing its handle, expected {}", tix, s, expect));
        }
        Ok(reads)
    };
    let mut handles = Vec::new();
    for t in 1..nthreads {
        let h = shadow::tracked(|| root.dup());
        let trng = Rng::new(seed ^ (t as u64 * 0x51ED));
        let tix = t as u8;
        handles.push(spawn(move || {
            worker_prelude(tix, seed);
            let r = shadow::tracked(|| prog(h, trng, tix));
            let _ = sink::take();
            r
        }));
    }
    // the spawner lets go before joining, so the last owner is whoever comes last
    let mrng = Rng::new(seed ^ 0xAAAA ^ rng.next());
    let mut results = vec![shadow::tracked(|| prog(root, mrng, 0))];
    for h in handles {
        results.push(join_out(h, "C02", "plaindrop")?);
    }
    sink::disarm();
    let _ = sink::take();
    let touched = sink::AFTER_FREE.swap(0, Relaxed);
    let fail = |oracle: &'static str, msg: String| {
        Err((
            Viol {
                props: "C02,C01",
                oracle,
                msg: format!("[plaindrop {}] {}", name, msg),
            },
            vec![],
        ))
    };
    if touched != 0 {
        return fail("count-after-free", format!("a reference-count operation was performed at {:#x} after that block had been returned to the allocator", touched));
    }
    let mut reads = 0;
    for r in results {
        match r {
            Ok(n) => reads += n,
            Err(m) => return fail("live", m),
        }
    }
    if shadow::active() {
        if let Some(x) = shadow::take_findings().first() {
            return fail("alloc", format!("allocator monitor: {:?}", x));
        }
        let lb = shadow::live_blocks();
        if !lb.is_empty() {
            return fail("alloc", format!("{} block(s) left behind after every thread released its handles: {:x?}", lb.len(), &lb[..lb.len().min(3)]));
        }
    }
    st.counts.add("conc.payload_reads", reads);
    st.counts.bump(&format!("conc.plaindrop.{}", name));
    Ok(())
}

// ---------------------------------------------------------------------------------------------
// scenario: uninitpoll [C15, C03] -- the deprecated Arc<MaybeUninit<T>>::write / Arc<[MaybeUninit<T>]>::as_mut_slice
// gate: readers on other threads read the (initialised) slot through their own handles and let go; the
// writer waits -- by relaxed count reads only -- until it is alone and then writes through the
// deprecated API. The uniqueness decision inside the API is what must order the write after the reads.

#[allow(deprecated)]
pub fn uninitpoll(seed: u64, variant: usize, nreaders: usize, st: &mut CStats) -> Result<(), (Viol, Vec<String>)> {
    use std::mem::MaybeUninit;
    tk::set_thread_ix(0);
    shadow::reset();
    let _ = sink::take();
    sink::arm(nreaders + 1);
    let slice = variant % 2 == 1;
    let name = if slice { "as_mut_slice" } else { "write" };
    let fail = |oracle: &'static str, msg: String| {
        Err((
            Viol {
                props: "C15,C03",
                oracle,
                msg: format!("[uninitpoll {}] {}", name, msg),
            },
            vec![],
        ))
    };
    let mut readers = Vec::new();
    let mut rng = Rng::new(seed);
    let ok;
    if !slice {
        let mut a: Arc<MaybeUninit<[u64; 3]>> = shadow::tracked(Arc::new_uninit);
        a.write([1, 2, 3]);
        for t in 1..=nreaders {
            let b = shadow::tracked(|| a.clone());
            let spins = rng.below(4);
            readers.push(spawn(move || {
                worker_prelude(t as u8, seed);
                for _ in 0..spins {
                    std::thread::yield_now();
                }
                let seen: [u64; 3] = unsafe { b.assume_init_read() };
                shadow::tracked(|| drop(b));
                sink::thread_done();
                let _ = sink::take();
                seen.iter().sum::<u64>()
            }));
        }
        let mut budget = 200_000_000u64;
        while Arc::strong_count(&a) != 1 && budget > 0 {
            std::thread::yield_now();
            budget -= 1;
        }
        // alone now: the deprecated gate must grant (and order) the write
        a.write([4, 5, 6]);
        let a = unsafe { a.assume_init() };
        ok = *a == [4, 5, 6];
        shadow::tracked(|| drop(a));
    } else {
        let mut a: Arc<[MaybeUninit<u16>]> = shadow::tracked(|| Arc::new_uninit_slice(5));
        for (k, s) in a.as_mut_slice().iter_mut().enumerate() {
            s.write(k as u16 + 1);
        }
        for t in 1..=nreaders {
            let b = shadow::tracked(|| a.clone());
            let spins = rng.below(4);
            readers.push(spawn(move || {
                worker_prelude(t as u8, seed);
                for _ in 0..spins {
                    std::thread::yield_now();
                }
                let sum: u64 = b.iter().map(|s| unsafe { s.assume_init_read() } as u64).sum();
                shadow::tracked(|| drop(b));
                sink::thread_done();
                let _ = sink::take();
                sum
            }));
        }
        let mut budget = 200_000_000u64;
        while Arc::strong_count(&a) != 1 && budget > 0 {
            std::thread::yield_now();
            budget -= 1;
        }
        a.as_mut_slice()[2].write(99);
        let a = unsafe { a.assume_init() };
        ok = a[..] == [1, 2, 99, 4, 5];
        shadow::tracked(|| drop(a));
    }
    let expect: u64 = if slice { 15 } else { 6 };
    let mut sums = Vec::new();
    for h in readers {
        sums.push(join_out(h, "C15,C03", "uninitpoll")?);
    }
    sink::disarm();
    let _ = sink::take();
    if sink::AFTER_FREE.swap(0, Relaxed) != 0 {
        return fail("count-after-free", "a reference-count operation was performed after the block had been returned to the allocator".into());
    }
    if !ok {
        return fail("uninit", "the value written through the deprecated gate is not what the sole owner reads back".into());
    }
    if let Some(s) = sums.iter().find(|s| **s != expect) {
        return fail("uninit", format!("a reader saw checksum {} (expected {}): the writer's store overlapped its read", s, expect));
    }
    if shadow::active() {
        if let Some(x) = shadow::take_findings().first() {
            return fail("alloc", format!("allocator monitor: {:?}", x));
        }
        if !shadow::live_blocks().is_empty() {
            return fail("alloc", "block left behind".into());
        }
    }
    st.counts.bump(&format!("conc.uninitpoll.{}.granted", name));
    Ok(())
}

// ---------------------------------------------------------------------------------------------
// scenario: clonedrop [C02]

pub fn clonedrop<X: Hnd>(
    seed: u64,
    make: &dyn Fn(u64) -> X,
    nthreads: usize,
    len: usize,
    st: &mut CStats,
) -> Result<(), (Viol, Vec<String>)> {
    let id0 = tk::next_id();
    let mut rng = Rng::new(seed);
    let nalloc = 1 + rng.below(2);
    let mut roots: Vec<X> = Vec::new();
    let mut allocs = Vec::new();
    tk::set_thread_ix(0);
    for k in 0..nalloc {
        let x = shadow::tracked(|| make(1 + ((seed + k as u64) % 150)));
        match x.ident() {
            Ok(i) => allocs.push(i),
            Err(v) => return Err((v, vec![])),
        }
        roots.push(x);
    }
    let _ = sink::take();
    sink::arm(nthreads);
    // hand every worker 1-2 handles obtained in assorted ways
    let mut handles = Vec::new();
    for t in 1..nthreads {
        let mut hs = Vec::new();
        let n = 1 + rng.below(2);
        for _ in 0..n {
            let root = &roots[rng.below(roots.len())];
            if let Some(h) = shadow::tracked(|| root.dup(rng.below(64))) {
                hs.push(h);
            }
        }
        let trng = Rng::new(seed ^ (t as u64 * 0x51ED));
        let tix = t as u8;
        handles.push(spawn(move || {
            worker_prelude(tix, seed);
            shadow::tracked(|| run_prog(hs, trng, len, tix))
        }));
    }
    // the spawner runs its own program and lets go *before* joining
    let mrng = Rng::new(seed ^ 0xAAAA);
    let mut outs = vec![shadow::tracked(|| run_prog(roots, mrng, len, 0))];
    for h in handles {
        outs.push(join_out(h, "C02", "clonedrop")?);
    }
    let r = finish(outs, &allocs, "C02", st, "clonedrop");
    if r.is_ok() {
        let live = tk::live();
        if live != 0 {
            tk::reset_range(id0);
            return Err((
                Viol {
                    props: "C02,C01",
                    oracle: "live",
                    msg: format!("[clonedrop] {} tracked values still alive after every thread released its handles", live),
                },
                vec![],
            ));
        }
        for (id, _) in &allocs {
            if tk::state(*id) != tk::DEAD {
                return Err((
                    Viol {
                        props: "C02,C01",
                        oracle: "live",
                        msg: format!("[clonedrop] value id={} never destroyed", id),
                    },
                    vec![],
                ));
            }
        }
    }
    st.counts.bump("conc.clonedrop");
    tk::reset_range(id0);
    r
}

// ---------------------------------------------------------------------------------------------
// scenario: uniqpoll [C03]  -- one poller mutates once it is the sole owner; sharers read and drop

static RELEASING: AtomicUsize = AtomicUsize::new(0);

pub fn uniqpoll(
    seed: u64,
    api: usize,
    nsharers: usize,
    st: &mut CStats,
) -> Result<(), (Viol, Vec<String>)> {
    const APIS: [&str; 8] = [
        "get_mut",
        "is_unique+get_mut",
        "get_unique",
        "try_unique",
        "try_from",
        "try_unwrap",
        "thin.with_arc_mut.get_mut",
        "off.make_mut-when-unique",
    ];
    let api = api % APIS.len();
    let id0 = tk::next_id();
    tk::set_thread_ix(0);
    RELEASING.store(0, Relaxed);
    let budget: usize = if cfg!(miri) { 400 } else { 200_000 };
    let mut rng = Rng::new(seed);
    let _ = sink::take();
    sink::arm(1 + nsharers);
    let mut outs: Vec<ThreadOut> = Vec::new();
    let mut allocs = Vec::new();
    let granted;
    if api == 6 {
        // thin world
        let root: ThinArc<TV, T8> = shadow::tracked(|| {
            ThinArc::from_header_and_iter(
                TV::make(5),
                crate::thin::Mk::<T8> {
                    left: 3,
                    tag0: 9,
                    _p: std::marker::PhantomData,
                },
            )
        });
        allocs.push((root.header.header.id(), root.heap_ptr() as usize));
        let mut hs = Vec::new();
        for t in 0..nsharers {
            let h: H2<TV, T8> =
                shadow::tracked(|| dup2(&H2::Thin(root.clone()), rng.below(3)).unwrap().0);
            let tix = (t + 1) as u8;
            hs.push(spawn(move || {
                worker_prelude(tix, seed);
                let mut viol = None;
                let mut reads = 0;
                for _ in 0..3 {
                    match h.read() {
                        Ok(_) => reads += 1,
                        Err(v) => {
                            viol = Some(v);
                            break;
                        }
                    }
                }
                RELEASING.fetch_add(1, Relaxed);
                if viol.is_none() {
                    shadow::tracked(|| h.release());
                } else {
                    std::mem::forget(h);
                }
                sink::thread_done();
                ThreadOut {
                    ords: sink::ordinal(),
                    viol,
                    log: sink::take(),
                    trace: vec![format!("t{}: 3 reads, release", tix)],
                    reads,
                }
            }));
        }
        // the dup above took its source by value: account for it
        let mut root = root;
        let mut g = false;
        let mut polls = 0;
        let mut viol = None;
        while polls < budget && !g {
            polls += 1;
            g = shadow::tracked(|| {
                root.with_arc_mut(|p| match Arc::get_mut(p) {
                    Some(m) => {
                        let rel = RELEASING.load(Relaxed);
                        if rel != nsharers {
                            viol = Some(Viol {
                                props: "C03",
                                oracle: "uniq-schedule",
                                msg: format!("get_mut inside with_arc_mut granted access while only {} of {} sharers had reached their release", rel, nsharers),
                            });
                        }
                        m.header_mut().fill(77);
                        true
                    }
                    None => false,
                })
            });
            if !g {
                std::thread::yield_now();
            }
        }
        granted = g;
        sink::thread_done();
        let out0 = ThreadOut {
            ords: sink::ordinal(),
            viol,
            log: Vec::new(),
            trace: vec![format!(
                "t0: polled {} {} times, granted={}",
                APIS[api], polls, g
            )],
            reads: 0,
        };
        for h in hs {
            outs.push(join_out(h, "C03", "uniqpoll")?);
        }
        if let Err(e) = root.header.header.check() {
            return Err((
                Viol {
                    props: "C03",
                    oracle: "uniq-schedule",
                    msg: e,
                },
                vec![],
            ));
        }
        shadow::tracked(|| drop(root));
        let mut o = out0;
        o.log = sink::take();
        outs.insert(0, o);
    } else {
        let root: Arc<TV> = shadow::tracked(|| Arc::new(TV::make(5)));
        allocs.push((root.id(), root.heap_ptr() as usize));
        let mut hs = Vec::new();
        for t in 0..nsharers {
            let (h, _) = shadow::tracked(|| dup_handle(&H::Arc(root.clone()), rng.below(4)));
            // dup_handle borrowed a temporary clone, which is dropped right here: net +1
            let h = match rng.below(3) {
                0 => shadow::tracked(|| h.conv(rng.below(16))).unwrap(),
                _ => h,
            };
            let tix = (t + 1) as u8;
            hs.push(spawn(move || {
                worker_prelude(tix, seed);
                let mut viol = None;
                let mut reads = 0;
                for _ in 0..3 {
                    match h.read() {
                        Ok(_) => reads += 1,
                        Err(v) => {
                            viol = Some(v);
                            break;
                        }
                    }
                }
                RELEASING.fetch_add(1, Relaxed);
                if viol.is_none() {
                    shadow::tracked(|| h.release());
                } else {
                    std::mem::forget(h);
                }
                sink::thread_done();
                ThreadOut {
                    ords: sink::ordinal(),
                    viol,
                    log: sink::take(),
                    trace: vec![format!("t{}: 3 reads through {}, release", tix, "handle")],
                    reads,
                }
            }));
        }
        let mut g = false;
        let mut polls = 0;
        let mut viol: Option<Viol> = None;
        let mut taken: Option<TV> = None;
        let mut off: Option<OffsetArc<TV>> = None;
        let check_rel = |what: &str, viol: &mut Option<Viol>| {
            let rel = RELEASING.load(Relaxed);
            if rel != nsharers && viol.is_none() {
                *viol = Some(Viol {
                    props: "C03",
                    oracle: "uniq-schedule",
                    msg: format!("{} granted mutable access while only {} of {} sharers had reached their release", what, rel, nsharers),
                });
            }
        };
        let mut root_opt = Some(root);
        while polls < budget && !g {
            polls += 1;
            shadow::tracked(|| match api {
                0 => {
                    let a = root_opt.as_mut().unwrap();
                    if let Some(m) = Arc::get_mut(a) {
                        check_rel("get_mut", &mut viol);
                        m.fill(77);
                        g = true;
                    }
                }
                1 => {
                    let a = root_opt.as_mut().unwrap();
                    if a.is_unique() {
                        check_rel("is_unique", &mut viol);
                        if let Some(m) = Arc::get_mut(a) {
                            m.fill(77);
                        }
                        g = true;
                    }
                }
                2 => {
                    let a = root_opt.as_mut().unwrap();
                    if let Some(u) = Arc::get_unique(a) {
                        check_rel("get_unique", &mut viol);
                        u.fill(77);
                        g = true;
                    }
                }
                3 | 4 => {
                    let a = root_opt.take().unwrap();
                    let r = if api == 3 {
                        Arc::try_unique(a)
                    } else {
                        <UniqueArc<TV> as std::convert::TryFrom<Arc<TV>>>::try_from(a)
                    };
                    match r {
                        Ok(mut u) => {
                            check_rel("try_unique", &mut viol);
                            u.fill(77);
                            g = true;
                            root_opt = Some(u.shareable());
                        }
                        Err(a) => root_opt = Some(a),
                    }
                }
                5 => {
                    let a = root_opt.take().unwrap();
                    match Arc::try_unwrap(a) {
                        Ok(mut v) => {
                            check_rel("try_unwrap", &mut viol);
                            v.fill(77);
                            g = true;
                            taken = Some(v);
                        }
                        Err(a) => root_opt = Some(a),
                    }
                }
                _ => {
                    // OffsetArc::make_mut writes in place only when unique
                    if off.is_none() {
                        off = Some(Arc::into_raw_offset(root_opt.take().unwrap()));
                    }
                    let o = off.as_mut().unwrap();
                    if o.with_arc(|a| a.is_unique()) {
                        check_rel("is_unique (via OffsetArc::with_arc)", &mut viol);
                        o.make_mut().fill(77);
                        g = true;
                    }
                }
            });
            if !g {
                std::thread::yield_now();
            }
        }
        granted = g;
        sink::thread_done();
        for h in hs {
            outs.push(join_out(h, "C03", "uniqpoll")?);
        }
        let mut final_check = Ok(());
        if let Some(a) = &root_opt {
            final_check = a.check();
        }
        if let Some(v) = &taken {
            final_check = v.check();
        }
        if let Some(o) = &off {
            final_check = o.check();
        }
        shadow::tracked(|| {
            drop(root_opt);
            drop(taken);
            drop(off);
        });
        if let Err(e) = final_check {
            return Err((
                Viol {
                    props: "C03",
                    oracle: "uniq-schedule",
                    msg: e,
                },
                vec![],
            ));
        }
        outs.insert(
            0,
            ThreadOut {
                ords: sink::ordinal(),
                viol,
                log: sink::take(),
                trace: vec![format!(
                    "t0: polled {} {} times, granted={}",
                    APIS[api], polls, g
                )],
                reads: 0,
            },
        );
    }
    st.counts.bump(&format!(
        "conc.uniqpoll.{}.{}",
        APIS[api],
        if granted { "granted" } else { "never" }
    ));
    let r = finish(outs, &allocs, "C03", st, "uniqpoll");
    tk::reset_range(id0);
    r
}

// ---------------------------------------------------------------------------------------------
// scenario: cow [C08] -- writer make_mut()s and writes while readers read their snapshot and drop

pub fn cow(
    seed: u64,
    api: usize,
    nreaders: usize,
    st: &mut CStats,
) -> Result<(), (Viol, Vec<String>)> {
    const APIS: [&str; 3] = ["make_mut", "make_unique", "off.make_mut"];
    let api = api % 3;
    let id0 = tk::next_id();
    tk::set_thread_ix(0);
    let mut rng = Rng::new(seed);
    let _ = sink::take();
    sink::arm(1 + nreaders);
    let root: Arc<TV> = shadow::tracked(|| Arc::new(TV::make(40)));
    let orig_block = root.heap_ptr() as usize;
    let allocs = vec![(root.id(), orig_block)];
    let mut hs = Vec::new();
    let gone = std::sync::Arc::new(AtomicU64::new(0));
    for t in 0..nreaders {
        let (h, _) = shadow::tracked(|| dup_handle(&H::Arc(root.clone()), rng.below(4)));
        let h = match rng.below(3) {
            0 => shadow::tracked(|| h.conv(rng.below(16))).unwrap(),
            _ => h,
        };
        let tix = (t + 1) as u8;
        let nreads = 1 + rng.below(4);
        let gone = gone.clone();
        hs.push(spawn(move || {
            worker_prelude(tix, seed);
            let mut viol = None;
            let mut reads = 0;
            for _ in 0..nreads {
                match h.read() {
                    Ok(tag) => {
                        reads += 1;
                        if tag != 40 {
                            viol = Some(Viol {
                                props: "C08",
                                oracle: "cow-schedule",
                                msg: format!("a reader saw value {} through its own handle; only the writer's private copy may change (original is 40)", tag),
                            });
                            break;
                        }
                    }
                    Err(mut v) => {
                        v.props = "C08";
                        viol = Some(v);
                        break;
                    }
                }
                std::thread::yield_now();
            }
            if viol.is_none() {
                shadow::tracked(|| h.release());
                gone.fetch_add(1, Relaxed);
            } else {
                std::mem::forget(h);
            }
            ThreadOut {
                ords: sink::ordinal(),
                viol,
                log: sink::take(),
                trace: vec![format!("t{}: {} reads, release", tix, nreads)],
                reads,
            }
        }));
    }
    // writer
    let mut viol = None;
    let mut w = Some(root);
    let mut woff: Option<OffsetArc<TV>> = None;
    // wait (without synchronising: relaxed reads only) until a random number of readers are gone
    let target = rng.below(nreaders + 1) as u64;
    let mut spins = 0;
    while gone.load(Relaxed) < target && spins < if cfg!(miri) { 300 } else { 100_000 } {
        spins += 1;
        std::thread::yield_now();
    }
    let clones0 = tk::clones();
    let (in_place, new_tag) = shadow::tracked(|| match api {
        0 => {
            let a = w.as_mut().unwrap();
            Arc::make_mut(a).fill(90);
            (a.heap_ptr() as usize == orig_block, a.tag())
        }
        1 => {
            let a = w.as_mut().unwrap();
            Arc::make_unique(a).fill(90);
            (a.heap_ptr() as usize == orig_block, a.tag())
        }
        _ => {
            let mut o = Arc::into_raw_offset(w.take().unwrap());
            o.make_mut().fill(90);
            let r = (o.with_arc(|a| a.heap_ptr() as usize) == orig_block, o.tag());
            woff = Some(o);
            r
        }
    });
    let cloned = tk::clones() - clones0;
    sink::thread_done();
    if new_tag != 90 {
        viol = Some(Viol {
            props: "C08",
            oracle: "cow-schedule",
            msg: "the write is not visible through the writing handle".into(),
        });
    }
    if in_place && cloned != 0 {
        viol = Some(Viol {
            props: "C08",
            oracle: "cow-schedule",
            msg: "kept the allocation but cloned the value".into(),
        });
    }
    if !in_place && cloned != 1 {
        viol = Some(Viol {
            props: "C08",
            oracle: "cow-schedule",
            msg: format!("moved to a new allocation with {} clones", cloned),
        });
    }
    let mut outs = Vec::new();
    for h in hs {
        outs.push(join_out(h, "C08", "cow")?);
    }
    let chk = match (&w, &woff) {
        (Some(a), _) => a.check(),
        (_, Some(o)) => o.check(),
        _ => Ok(()),
    };
    if let Err(e) = chk {
        viol = Some(Viol {
            props: "C08",
            oracle: "cow-schedule",
            msg: e,
        });
    }
    shadow::tracked(|| {
        drop(w);
        drop(woff);
    });
    outs.insert(
        0,
        ThreadOut {
            ords: sink::ordinal(),
            viol,
            log: sink::take(),
            trace: vec![format!(
                "t0: {} after {} yields -> in_place={}",
                APIS[api], spins, in_place
            )],
            reads: 0,
        },
    );
    st.counts.bump(&format!(
        "conc.cow.{}.{}",
        APIS[api],
        if in_place { "in-place" } else { "copied" }
    ));
    let r = finish(outs, &allocs, "C08", st, "cow");
    if r.is_ok() && tk::live() != 0 {
        let n = tk::live();
        tk::reset_range(id0);
        return Err((
            Viol {
                props: "C08,C01,C02",
                oracle: "live",
                msg: format!("[cow] {} tracked values alive at the end", n),
            },
            vec![],
        ));
    }
    tk::reset_range(id0);
    r
}

// ---------------------------------------------------------------------------------------------
// scenario: unwraprace [C09] -- every thread calls one of try_unwrap/try_unique/unwrap_or_clone/drop

pub fn unwraprace(seed: u64, nthreads: usize, st: &mut CStats) -> Result<(), (Viol, Vec<String>)> {
    const APIS: [&str; 5] = [
        "try_unwrap",
        "try_unique",
        "unwrap_or_clone",
        "drop",
        "try_from",
    ];
    let id0 = tk::next_id();
    tk::set_thread_ix(0);
    let mut rng = Rng::new(seed);
    let _ = sink::take();
    sink::arm(nthreads);
    let root: Arc<TV> = shadow::tracked(|| Arc::new(TV::make(60)));
    let orig = root.id();
    let allocs = vec![(orig, root.heap_ptr() as usize)];
    let barrier = std::sync::Arc::new(Barrier::new(nthreads));
    let mut hs = Vec::new();
    let mut my = Some(root);
    // outcome per thread: 0 nothing, 1 received the original value, 2 received a clone
    for t in 0..nthreads {
        let a = if t + 1 == nthreads {
            my.take().unwrap()
        } else {
            shadow::tracked(|| my.as_ref().unwrap().clone())
        };
        let api = rng.below(APIS.len());
        let tix = t as u8 + 1;
        let b = barrier.clone();
        hs.push(spawn(move || {
            worker_prelude(tix, seed);
            b.wait();
            let mut viol = None;
            let mut got = 0u8;
            shadow::tracked(|| {
                let val: Option<TV> = match api {
                    0 => Arc::try_unwrap(a).ok(),
                    1 => Arc::try_unique(a).ok().map(UniqueArc::into_inner),
                    4 => <UniqueArc<TV> as std::convert::TryFrom<Arc<TV>>>::try_from(a)
                        .ok()
                        .map(UniqueArc::into_inner),
                    2 => Some(Arc::unwrap_or_clone(a)),
                    _ => {
                        drop(a);
                        None
                    }
                };
                if let Some(v) = val {
                    if let Err(e) = v.check() {
                        viol = Some(Viol {
                            props: "C09",
                            oracle: "unwrap-schedule",
                            msg: format!("value received from {} is not intact: {}", APIS[api], e),
                        });
                    } else if v.id() == orig {
                        got = 1;
                    } else if tk::origin(v.id()) == orig && api == 2 {
                        got = 2;
                    } else {
                        viol = Some(Viol {
                            props: "C09",
                            oracle: "unwrap-schedule",
                            msg: format!(
                                "{} returned a value that is neither the original nor its clone",
                                APIS[api]
                            ),
                        });
                    }
                    if viol.is_none() {
                        drop(v);
                    } else {
                        std::mem::forget(v);
                    }
                }
            });
            sink::thread_done();
            (
                ThreadOut {
                    ords: sink::ordinal(),
                    viol,
                    log: sink::take(),
                    trace: vec![format!(
                        "t{}: {} -> {}",
                        tix,
                        APIS[api],
                        ["nothing", "original", "clone"][got as usize]
                    )],
                    reads: 1,
                },
                got,
            )
        }));
    }
    let mut outs = vec![ThreadOut {
        ords: sink::ordinal(),
        viol: None,
        log: sink::take(),
        trace: vec![format!("t0: handed {} handles out", nthreads)],
        reads: 0,
    }];
    let mut receivers = 0;
    let mut sigs = String::new();
    for h in hs {
        let (o, got) = join_out(h, "C09", "unwraprace")?;
        if got == 1 {
            receivers += 1;
        }
        sigs.push_str(&o.trace[0]);
        sigs.push_str("; ");
        outs.push(o);
    }
    st.counts
        .bump(&format!("conc.unwraprace.receivers={}", receivers));
    if receivers > 1 {
        tk::reset_range(id0);
        return Err((
            Viol {
                props: "C09",
                oracle: "unwrap-schedule",
                msg: format!("{} threads received the original value", receivers),
            },
            vec![sigs],
        ));
    }
    let r = finish(outs, &allocs, "C09", st, "unwraprace");
    if r.is_ok() {
        if tk::state(orig) != tk::DEAD {
            tk::reset_range(id0);
            return Err((
                Viol {
                    props: "C09,C02",
                    oracle: "unwrap-schedule",
                    msg: "the value was neither handed out nor destroyed".into(),
                },
                vec![sigs],
            ));
        }
        if tk::live() != 0 {
            let n = tk::live();
            tk::reset_range(id0);
            return Err((
                Viol {
                    props: "C09,C01,C02",
                    oracle: "live",
                    msg: format!("[unwraprace] {} tracked values alive at the end", n),
                },
                vec![sigs],
            ));
        }
    }
    tk::reset_range(id0);
    r
}

// ---------------------------------------------------------------------------------------------

pub fn set_pause(tid: u8, at: usize, phase: u8) {
    sink::set_pause(tid, at, phase);
}

pub fn install_hook(delay_mode: u8, seed: u64) -> bool {
    sink::install(delay_mode, seed);
    sink::HOOKED
}

pub fn make_w1(tag: u64) -> H<TV> {
    H::Arc(Arc::new(TV::make(tag)))
}

pub fn make_w2(tag: u64) -> H2<TV, T8> {
    let n = (tag % 4) as usize;
    H2::Thin(ThinArc::from_header_and_iter(
        TV::make(tag),
        crate::thin::Mk::<T8> {
            left: n,
            tag0: tag,
            _p: std::marker::PhantomData,
        },
    ))
}

pub fn make_w2_fat(tag: u64) -> H2<TV, TV> {
    let n = (tag % 3) as usize;
    H2::Fat(Arc::from_header_and_iter(
        HeaderWithLength::new(TV::make(tag), n),
        crate::thin::Mk::<TV> {
            left: n,
            tag0: tag,
            _p: std::marker::PhantomData,
        },
    ))
}
