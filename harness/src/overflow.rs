//! overflow engine [C16]: the reference count can never wrap. A child process presets the
//! counter of a live allocation and performs one clone through one entry point; the parent (M5)
//! classifies how the child ended.

use crate::ensure;
use crate::util::*;
use std::collections::BTreeSet;
use std::io::Write;
use std::sync::atomic::{AtomicUsize, Ordering::Relaxed};
use triomphe::{Arc, ArcBorrow, ArcUnion, OffsetArc, ThinArc};

pub struct OStats {
    pub counts: Counts,
    pub cases: BTreeSet<u64>,
    pub sample: Vec<String>,
}
impl OStats {
    pub fn new() -> Self {
        OStats {
            counts: Counts::default(),
            cases: BTreeSet::new(),
            sample: Vec::new(),
        }
    }
}

pub const ENTRIES: [&str; 14] = [
    "Arc<T>::clone",
    "Arc<[T]>::clone",
    "Arc<dyn Trait>::clone",
    "ThinArc::clone",
    "OffsetArc::clone",
    "OffsetArc::clone_arc",
    "ArcBorrow::clone_arc",
    "ArcUnion(first)::clone",
    "ArcUnion(second)::clone",
    "clone inside ThinArc::with_arc",
    "clone inside OffsetArc::with_arc",
    "clone inside ArcBorrow::with_arc",
    "clone inside Arc::with_raw_offset_arc",
    "clone inside ThinArc::with_arc_mut",
];

pub fn starts() -> Vec<usize> {
    let m = isize::MAX as usize;
    vec![
        1,
        2,
        1 << 31,
        1 << 32,
        m - 1,
        m,
        m + 1,
        m + 2,
        usize::MAX - 1,
        usize::MAX,
    ]
}

trait Dy: Send + Sync {
    fn v(&self) -> u32;
}
impl Dy for u32 {
    fn v(&self) -> u32 {
        *self
    }
}

static SEEN_ADDR: AtomicUsize = AtomicUsize::new(0);

#[cfg(triomphe_verif)]
fn learn_addr(touch: &dyn Fn()) -> Option<usize> {
    fn on(ev: &triomphe::verif_hooks::Event) {
        SEEN_ADDR.store(ev.addr, Relaxed);
    }
    SEEN_ADDR.store(0, Relaxed);
    triomphe::verif_hooks::set_hook(Some(on));
    touch();
    triomphe::verif_hooks::set_hook(None);
    match SEEN_ADDR.load(Relaxed) {
        0 => None,
        a => Some(a),
    }
}
#[cfg(not(triomphe_verif))]
fn learn_addr(_touch: &dyn Fn()) -> Option<usize> {
    let _ = &SEEN_ADDR;
    None
}

/// Child side: returns only on harness problems (exit code 3); otherwise exits 0 after printing AFTER/CAUGHT.
pub fn child(entry: usize, start: usize) -> i32 {
    macro_rules! go {
        ($heap:expr, $count:expr, $touch:expr, $act:expr) => {{
            let heap: usize = $heap;
            // where is the counter? ask the hook; fall back to the block start, validated differentially
            let addr = match learn_addr(&$touch) {
                Some(a) => a,
                None => heap,
            };
            let cell = unsafe { &*(addr as *const AtomicUsize) };
            if cell.load(Relaxed) != 1 || $count != 1 {
                println!("HARNESS counter not found (word={} count={})", cell.load(Relaxed), $count);
                return 3;
            }
            cell.store(7, Relaxed);
            if $count != 7 {
                println!("HARNESS counter not found (accessor does not follow the word)");
                return 3;
            }
            cell.store(start, Relaxed);
            println!("BEFORE entry={} start={}", ENTRIES[entry], start);
            let _ = std::io::stdout().flush();
            let r = std::panic::catch_unwind(std::panic::AssertUnwindSafe(|| {
                let h = $act;
                std::mem::forget(h);
            }));
            match r {
                Ok(()) => println!("AFTER count={} word={}", $count, cell.load(Relaxed)),
                Err(_) => println!("CAUGHT"),
            }
            let _ = std::io::stdout().flush();
            std::process::exit(0);
        }};
    }
    match entry {
        0 => {
            let a: Arc<u64> = Arc::new(5);
            go!(
                a.heap_ptr() as usize,
                Arc::count(&a),
                || {
                    Arc::count(&a);
                },
                a.clone()
            )
        }
        1 => {
            let a: Arc<[u16]> = Arc::from(vec![1u16, 2, 3]);
            go!(
                a.heap_ptr() as usize,
                Arc::count(&a),
                || {
                    Arc::count(&a);
                },
                a.clone()
            )
        }
        2 => {
            let p = Arc::into_raw(Arc::new(9u32)) as *const dyn Dy;
            let a: Arc<dyn Dy> = unsafe { Arc::from_raw(p) };
            go!(
                a.heap_ptr() as usize,
                Arc::count(&a),
                || {
                    Arc::count(&a);
                },
                a.clone()
            )
        }
        3 => {
            let t: ThinArc<u8, u32> = ThinArc::from_header_and_slice(1, &[1, 2, 3]);
            go!(
                t.heap_ptr() as usize,
                ThinArc::strong_count(&t),
                || {
                    ThinArc::strong_count(&t);
                },
                t.clone()
            )
        }
        4 => {
            let o = Arc::into_raw_offset(Arc::new(5u64));
            go!(
                o.with_arc(|a| a.heap_ptr() as usize),
                OffsetArc::strong_count(&o),
                || {
                    OffsetArc::strong_count(&o);
                },
                o.clone()
            )
        }
        5 => {
            let o = Arc::into_raw_offset(Arc::new(5u64));
            go!(
                o.with_arc(|a| a.heap_ptr() as usize),
                OffsetArc::strong_count(&o),
                || {
                    OffsetArc::strong_count(&o);
                },
                o.clone_arc()
            )
        }
        6 => {
            let a: Arc<u64> = Arc::new(5);
            let b = a.borrow_arc();
            go!(
                a.heap_ptr() as usize,
                ArcBorrow::strong_count(&b),
                || {
                    ArcBorrow::strong_count(&b);
                },
                b.clone_arc()
            )
        }
        7 => {
            let u: ArcUnion<u64, u32> = ArcUnion::from_first(Arc::new(5));
            let heap = u.as_first().unwrap().with_arc(|a| a.heap_ptr() as usize);
            go!(
                heap,
                ArcUnion::strong_count(&u),
                || {
                    ArcUnion::strong_count(&u);
                },
                u.clone()
            )
        }
        8 => {
            let u: ArcUnion<u64, u32> = ArcUnion::from_second(Arc::new(5));
            let heap = u.as_second().unwrap().with_arc(|a| a.heap_ptr() as usize);
            go!(
                heap,
                ArcUnion::strong_count(&u),
                || {
                    ArcUnion::strong_count(&u);
                },
                u.clone()
            )
        }
        9 => {
            let t: ThinArc<u8, u32> = ThinArc::from_header_and_slice(1, &[1, 2, 3]);
            go!(
                t.heap_ptr() as usize,
                ThinArc::strong_count(&t),
                || {
                    ThinArc::strong_count(&t);
                },
                t.with_arc(|a| a.clone())
            )
        }
        10 => {
            let o = Arc::into_raw_offset(Arc::new(5u64));
            go!(
                o.with_arc(|a| a.heap_ptr() as usize),
                OffsetArc::strong_count(&o),
                || {
                    OffsetArc::strong_count(&o);
                },
                o.with_arc(|a| a.clone())
            )
        }
        11 => {
            let a: Arc<u64> = Arc::new(5);
            let b = a.borrow_arc();
            go!(
                a.heap_ptr() as usize,
                ArcBorrow::strong_count(&b),
                || {
                    ArcBorrow::strong_count(&b);
                },
                b.with_arc(|x| x.clone())
            )
        }
        12 => {
            let a: Arc<u64> = Arc::new(5);
            go!(
                a.heap_ptr() as usize,
                Arc::count(&a),
                || {
                    Arc::count(&a);
                },
                a.with_raw_offset_arc(|o| o.clone())
            )
        }
        _ => {
            let mut t: ThinArc<u8, u32> = ThinArc::from_header_and_slice(1, &[1, 2, 3]);
            let heap = t.heap_ptr() as usize;
            let tp = &mut t as *mut ThinArc<u8, u32>;
            go!(
                heap,
                ThinArc::strong_count(unsafe { &*tp }),
                || {
                    ThinArc::strong_count(unsafe { &*tp });
                },
                unsafe { &mut *tp }.with_arc_mut(|a| a.clone())
            )
        }
    }
}

/// Parent side: one child per (entry, start).
pub fn parent(entry: usize, st: &mut OStats) -> R {
    let exe = std::env::current_exe().map_err(|e| Viol {
        props: "",
        oracle: "harness",
        msg: format!("current_exe: {}", e),
    })?;
    let max = isize::MAX as usize;
    // besides the ordinary environment: the same overflow with an unwritable stderr (a diagnostic that cannot be
    // printed must not turn the abort into something else)
    let mut plan: Vec<(usize, u8)> = starts().into_iter().map(|s| (s, 0u8)).collect();
    for s in [max, max + 1, usize::MAX] {
        plan.push((s, 1));
        plan.push((s, 2));
    }
    for (start, errmode) in plan {
        let mut cmd = std::process::Command::new(&exe);
        cmd.args([
            "ovchild",
            &format!("entry={}", entry),
            &format!("start={}", start),
        ]);
        let mut broken_pipe_reader = None;
        match errmode {
            1 => match std::fs::OpenOptions::new().write(true).open("/dev/full") {
                Ok(f) => {
                    cmd.stderr(f);
                }
                Err(_) => continue,
            },
            2 => {
                // a pipe whose read end is closed before the child starts
                let mut fds = [0i32; 2];
                extern "C" {
                    fn pipe(fds: *mut i32) -> i32;
                }
                if unsafe { pipe(fds.as_mut_ptr()) } != 0 {
                    continue;
                }
                use std::os::unix::io::FromRawFd;
                let (r, w) = unsafe { (std::fs::File::from_raw_fd(fds[0]), std::fs::File::from_raw_fd(fds[1])) };
                drop(r);
                cmd.stderr(w);
                broken_pipe_reader = Some(());
            }
            _ => {}
        }
        let _ = broken_pipe_reader;
        let out = cmd
            .output()
            .map_err(|e| Viol {
                props: "",
                oracle: "harness",
                msg: format!("spawn: {}", e),
            })?;
        let so = String::from_utf8_lossy(&out.stdout).to_string();
        let what = format!(
            "{} at count {:#x}{}",
            ENTRIES[entry],
            start,
            match errmode {
                1 => " (stderr = /dev/full)",
                2 => " (stderr = broken pipe)",
                _ => "",
            }
        );
        use std::os::unix::process::ExitStatusExt;
        if so.contains("HARNESS") || !so.contains("BEFORE") {
            return viol(
                "",
                "harness",
                format!(
                    "{}: child could not set up: {} {}",
                    what,
                    so.trim(),
                    String::from_utf8_lossy(&out.stderr)
                        .lines()
                        .last()
                        .unwrap_or("")
                ),
            );
        }
        ensure!(
            !so.contains("CAUGHT"),
            "C16",
            "overflow",
            "{}: the clone ended in a catchable panic instead of succeeding or aborting the process",
            what
        );
        let after = so
            .lines()
            .find(|l| l.starts_with("AFTER"))
            .map(|l| l.to_string());
        let outcome;
        match (&after, out.status.signal()) {
            (Some(line), None) => {
                ensure!(
                    out.status.success(),
                    "",
                    "harness",
                    "{}: child printed AFTER but exited with {:?}",
                    what,
                    out.status
                );
                ensure!(
                    start <= max,
                    "C16",
                    "overflow",
                    "{}: the clone succeeded although the count had passed isize::MAX ({})",
                    what,
                    line
                );
                let want = format!(
                    "count={} word={}",
                    start.wrapping_add(1),
                    start.wrapping_add(1)
                );
                ensure!(
                    line.ends_with(&want),
                    "C16,C04",
                    "overflow",
                    "{}: a successful clone must add exactly one; child reports '{}', expected '{}'",
                    what,
                    line,
                    want
                );
                outcome = "cloned";
            }
            (None, Some(sig)) => {
                ensure!(
                    start >= max,
                    "C16",
                    "overflow",
                    "{}: the process died with signal {} although the count is below the limit",
                    what,
                    sig
                );
                ensure!(
                    sig == 6 || sig == 4,
                    "C16",
                    "overflow",
                    "{}: the process died with signal {} rather than aborting",
                    what,
                    sig
                );
                outcome = "aborted";
            }
            (None, None) => {
                return viol(
                    "C16",
                    "overflow",
                    format!(
                        "{}: the child exited with {:?} without finishing the clone or aborting",
                        what,
                        out.status.code()
                    ),
                );
            }
            (Some(_), Some(sig)) => {
                return viol(
                    "",
                    "harness",
                    format!(
                        "{}: child printed AFTER and then died with signal {}",
                        what, sig
                    ),
                );
            }
        }
        st.counts.bump(&format!("overflow.{}", outcome));
        st.counts.bump("overflow.children");
        if errmode != 0 {
            st.counts.bump("overflow.unwritable-stderr");
        }
        st.cases.insert(hash64(&format!("{}|{}|{}", entry, start, errmode)));
        if st.sample.len() < 8 && (start == max + 1 || start == 2) {
            st.sample.push(format!("{} -> {}", what, outcome));
        }
    }
    Ok(())
}

// ---------------------------------------------------------------------------------------------
// two clones racing at the limit: starting from exactly isize::MAX one clone is allowed, a second one is not --
// whatever the interleaving, the process must have aborted once both threads have tried.

pub const RACE_ENTRIES: [&str; 3] = ["Arc<T>::clone x2", "ArcBorrow::clone_arc x2", "ThinArc::clone x2"];

#[cfg(triomphe_verif)]
mod race_hook {
    use std::cell::Cell;
    use std::sync::atomic::{AtomicBool, AtomicU8, Ordering::Relaxed};
    pub static PHASE: AtomicU8 = AtomicU8::new(255);
    pub static OTHER_DONE: AtomicBool = AtomicBool::new(false);
    pub static HOLDING: AtomicBool = AtomicBool::new(false);
    thread_local! {
        pub static HELD_THREAD: Cell<bool> = const { Cell::new(false) };
        static ALREADY: Cell<bool> = const { Cell::new(false) };
    }
    pub fn on(ev: &triomphe::verif_hooks::Event) {
        let ph = PHASE.load(Relaxed);
        if ph == 255 || !HELD_THREAD.with(|h| h.get()) || ALREADY.with(|a| a.get()) {
            return;
        }
        if ev.done != (ph == 1) {
            return;
        }
        ALREADY.with(|a| a.set(true));
        HOLDING.store(true, Relaxed);
        // hold this thread at its first count operation until the other thread has finished its clone
        let mut budget = 50_000_000u64;
        while !OTHER_DONE.load(Relaxed) && budget > 0 {
            std::thread::yield_now();
            budget -= 1;
        }
    }
}

/// phase: 0 = hold thread 1 before its first count operation, 1 = after it, anything else = free-running
pub fn race_child(entry: usize, phase: u8, start: usize) -> i32 {
    let a: Arc<u64> = Arc::new(5);
    let t: ThinArc<u32, u16> = ThinArc::from_header_and_slice(1, &[1u16, 2]);
    let (addr_a, addr_t) = match (learn_addr(&|| {
        Arc::count(&a);
    }), learn_addr(&|| {
        ThinArc::strong_count(&t);
    })) {
        (Some(x), Some(y)) => (x, y),
        _ => (a.heap_ptr() as usize, t.heap_ptr() as usize),
    };
    let cell = unsafe { &*((if entry == 2 { addr_t } else { addr_a }) as *const AtomicUsize) };
    if cell.load(Relaxed) != 1 {
        println!("HARNESS counter not found");
        return 3;
    }
    cell.store(start, Relaxed);
    if (entry == 2 && ThinArc::strong_count(&t) != start) || (entry != 2 && Arc::count(&a) != start) {
        println!("HARNESS counter not found (accessor does not follow the word)");
        return 3;
    }
    #[cfg(triomphe_verif)]
    {
        race_hook::PHASE.store(phase, Relaxed);
        triomphe::verif_hooks::set_hook(Some(race_hook::on));
    }
    let _ = phase;
    println!("BEFORE entry={} start={}", RACE_ENTRIES[entry], start);
    let _ = std::io::stdout().flush();
    let go = std::sync::Barrier::new(2);
    let act = |held: bool| {
        #[cfg(triomphe_verif)]
        race_hook::HELD_THREAD.with(|h| h.set(held));
        let _ = held;
        go.wait();
        #[cfg(triomphe_verif)]
        if !held && race_hook::PHASE.load(Relaxed) != 255 && phase <= 1 {
            // start only once the other thread is parked at its count operation
            let mut budget = 50_000_000u64;
            while !race_hook::HOLDING.load(Relaxed) && budget > 0 {
                std::thread::yield_now();
                budget -= 1;
            }
        }
        match entry {
            0 => std::mem::forget(a.clone()),
            1 => {
                let b: ArcBorrow<'_, u64> = a.borrow_arc();
                std::mem::forget(b.clone_arc())
            }
            _ => std::mem::forget(t.clone()),
        }
        #[cfg(triomphe_verif)]
        if !held {
            race_hook::OTHER_DONE.store(true, Relaxed);
        }
    };
    std::thread::scope(|s| {
        s.spawn(|| act(true));
        s.spawn(|| act(false));
    });
    println!("AFTER word={}", cell.load(Relaxed));
    let _ = std::io::stdout().flush();
    std::process::exit(0);
}

pub fn race_parent(entry: usize, st: &mut OStats) -> R {
    let exe = std::env::current_exe().map_err(|e| Viol {
        props: "",
        oracle: "harness",
        msg: format!("current_exe: {}", e),
    })?;
    let phases: &[u8] = if cfg!(triomphe_verif) { &[0, 1, 9, 9, 9] } else { &[9, 9, 9, 9] };
    // far below the limit two racing clones both succeed and add exactly one each, whatever the interleaving
    for (k, phase) in phases.iter().enumerate() {
        for start in [1usize, 2] {
            let out = std::process::Command::new(&exe)
                .args(["ovrace", &format!("entry={}", entry), &format!("phase={}", phase), &format!("start={}", start)])
                .output()
                .map_err(|e| Viol {
                    props: "",
                    oracle: "harness",
                    msg: format!("spawn: {}", e),
                })?;
            let so = String::from_utf8_lossy(&out.stdout).to_string();
            let what = format!("{} from count {}, phase {}", RACE_ENTRIES[entry], start, phase);
            if so.contains("HARNESS") || !so.contains("BEFORE") {
                return viol("", "harness", format!("{}: child could not set up: {}", what, so.trim()));
            }
            let want = format!("AFTER word={}", start + 2);
            ensure!(
                out.status.success() && so.lines().any(|l| l == want),
                "C16,C04",
                "overflow",
                "{}: two concurrent clones below the limit must both succeed and add exactly one each; child ended with {:?} and printed '{}'",
                what,
                out.status,
                so.lines().find(|l| l.starts_with("AFTER")).unwrap_or("")
            );
            st.counts.bump("overflow.race.cloned");
            st.counts.bump("overflow.children");
            st.cases.insert(hash64(&format!("race-low|{}|{}|{}|{}", entry, phase, k, start)));
        }
    }
    for (k, phase) in phases.iter().enumerate() {
        let out = std::process::Command::new(&exe)
            .args(["ovrace", &format!("entry={}", entry), &format!("phase={}", phase), &format!("start={}", isize::MAX as usize)])
            .output()
            .map_err(|e| Viol {
                props: "",
                oracle: "harness",
                msg: format!("spawn: {}", e),
            })?;
        let so = String::from_utf8_lossy(&out.stdout).to_string();
        let what = format!(
            "{} from exactly isize::MAX, {}",
            RACE_ENTRIES[entry],
            match phase {
                0 => "one thread held before its first count operation until the other is done",
                1 => "one thread held after its first count operation until the other is done",
                _ => "free-running",
            }
        );
        use std::os::unix::process::ExitStatusExt;
        if so.contains("HARNESS") || !so.contains("BEFORE") {
            return viol("", "harness", format!("{}: child could not set up: {}", what, so.trim()));
        }
        ensure!(
            !so.contains("AFTER"),
            "C16",
            "overflow",
            "{}: both clones returned a handle ({}): the count passed isize::MAX without an abort",
            what,
            so.lines().find(|l| l.starts_with("AFTER")).unwrap_or("")
        );
        match out.status.signal() {
            Some(6) | Some(4) => {}
            other => {
                return viol(
                    "C16",
                    "overflow",
                    format!("{}: the child ended with signal {:?} / status {:?} instead of aborting", what, other, out.status.code()),
                )
            }
        }
        st.counts.bump("overflow.race.aborted");
        st.counts.bump("overflow.children");
        st.cases.insert(hash64(&format!("race|{}|{}|{}", entry, phase, k)));
    }
    Ok(())
}

// ---------------------------------------------------------------------------------------------
// wide counts [C09, C03]: a uniqueness decision must look at the whole counter. The counter of a live allocation is
// preset to values that are 1 modulo 2^32 (reachable with mem::forget(a.clone()) in a loop) and every
// uniqueness-gated API must decline.

pub const WIDE_APIS: [&str; 5] = ["Arc::try_unique", "Arc::try_unwrap", "Arc::is_unique", "Arc::get_mut", "UniqueArc::try_from(Arc)"];

pub fn wide_child(api: usize, start: usize) -> i32 {
    let mut a: Arc<u64> = Arc::new(5);
    let addr = match learn_addr(&|| {
        Arc::count(&a);
    }) {
        Some(x) => x,
        None => a.heap_ptr() as usize,
    };
    let cell = unsafe { &*(addr as *const AtomicUsize) };
    if cell.load(Relaxed) != 1 {
        println!("HARNESS counter not found");
        return 3;
    }
    cell.store(start, Relaxed);
    if Arc::count(&a) != start {
        println!("HARNESS counter not found (accessor does not follow the word)");
        return 3;
    }
    println!("BEFORE api={} start={}", WIDE_APIS[api], start);
    let _ = std::io::stdout().flush();
    let r = std::panic::catch_unwind(std::panic::AssertUnwindSafe(|| match api {
        0 => match Arc::try_unique(a) {
            Ok(u) => {
                std::mem::forget(u);
                true
            }
            Err(b) => {
                std::mem::forget(b);
                false
            }
        },
        1 => match Arc::try_unwrap(a) {
            Ok(_) => true,
            Err(b) => {
                std::mem::forget(b);
                false
            }
        },
        2 => {
            let g = a.is_unique();
            std::mem::forget(a);
            g
        }
        3 => {
            let g = Arc::get_mut(&mut a).is_some();
            std::mem::forget(a);
            g
        }
        _ => match <triomphe::UniqueArc<u64> as std::convert::TryFrom<Arc<u64>>>::try_from(a) {
            Ok(u) => {
                std::mem::forget(u);
                true
            }
            Err(b) => {
                std::mem::forget(b);
                false
            }
        },
    }));
    match r {
        Ok(true) => println!("GRANTED"),
        Ok(false) => println!("DECLINED word={}", cell.load(Relaxed)),
        Err(_) => println!("CAUGHT"),
    }
    let _ = std::io::stdout().flush();
    std::process::exit(0);
}

pub fn wide_parent(api: usize, st: &mut OStats) -> R {
    let exe = std::env::current_exe().map_err(|e| Viol {
        props: "",
        oracle: "harness",
        msg: format!("current_exe: {}", e),
    })?;
    for start in [(1usize << 32) + 1, 1usize << 32, (1usize << 33) + 1, (1usize << 48) + 1, (1usize << 16) + 1, 3, 2] {
        let out = std::process::Command::new(&exe)
            .args(["ovwide", &format!("entry={}", api), &format!("start={}", start)])
            .output()
            .map_err(|e| Viol {
                props: "",
                oracle: "harness",
                msg: format!("spawn: {}", e),
            })?;
        let so = String::from_utf8_lossy(&out.stdout).to_string();
        let what = format!("{} with the count preset to {:#x}", WIDE_APIS[api], start);
        if so.contains("HARNESS") || !so.contains("BEFORE") {
            return viol("", "harness", format!("{}: child could not set up: {}", what, so.trim()));
        }
        ensure!(
            !so.contains("GRANTED"),
            "C09,C03",
            "overflow",
            "{}: sole ownership was granted although {} owners are recorded",
            what,
            start
        );
        let want = format!("DECLINED word={}", start);
        ensure!(
            out.status.success() && so.lines().any(|l| l == want),
            "C09,C03",
            "overflow",
            "{}: expected a decline with the count unchanged; child ended with {:?} and printed '{}'",
            what,
            out.status,
            so.lines().last().unwrap_or("")
        );
        st.counts.bump("overflow.wide.declined");
        st.counts.bump("overflow.children");
        st.cases.insert(hash64(&format!("wide|{}|{}", api, start)));
    }
    Ok(())
}
