//! overflow engine [C16]: the reference count can never wrap. A child process presets the
//! counter of a live allocation and performs one clone through one entry point; the parent (M5)
//! classifies how the child ended.

use crate::ensure;
use crate::util::*;
use std::collections::BTreeSet;
use std::io::Write;
use std::sync::atomic::{AtomicUsize, Ordering::Relaxed};
use triomphe::{Arc, ArcBorrow, ArcUnion, OffsetArc, ThinArc};

pub struct OStats {
    pub counts: Counts,
    pub cases: BTreeSet<u64>,
    pub sample: Vec<String>,
}
impl OStats {
    pub fn new() -> Self {
        OStats {
            counts: Counts::default(),
            cases: BTreeSet::new(),
            sample: Vec::new(),
        }
    }
}

pub const ENTRIES: [&str; 14] = [
    "Arc<T>::clone",
    "Arc<[T]>::clone",
    "Arc<dyn Trait>::clone",
    "ThinArc::clone",
    "OffsetArc::clone",
    "OffsetArc::clone_arc",
    "ArcBorrow::clone_arc",
    "ArcUnion(first)::clone",
    "ArcUnion(second)::clone",
    "clone inside ThinArc::with_arc",
    "clone inside OffsetArc::with_arc",
    "clone inside ArcBorrow::with_arc",
    "clone inside Arc::with_raw_offset_arc",
    "clone inside ThinArc::with_arc_mut",
];

pub fn starts() -> Vec<usize> {
    let m = isize::MAX as usize;
    vec![
        1,
        2,
        1 << 31,
        1 << 32,
        m - 1,
        m,
        m + 1,
        m + 2,
        usize::MAX - 1,
        usize::MAX,
    ]
}

trait Dy: Send + Sync {
    fn v(&self) -> u32;
}
impl Dy for u32 {
    fn v(&self) -> u32 {
        *self
    }
}

static SEEN_ADDR: AtomicUsize = AtomicUsize::new(0);

#[cfg(triomphe_verif)]
fn learn_addr(touch: &dyn Fn()) -> Option<usize> {
    fn on(ev: &triomphe::verif_hooks::Event) {
        SEEN_ADDR.store(ev.addr, Relaxed);
    }
    SEEN_ADDR.store(0, Relaxed);
    triomphe::verif_hooks::set_hook(Some(on));
    touch();
    triomphe::verif_hooks::set_hook(None);
    match SEEN_ADDR.load(Relaxed) {
        0 => None,
        a => Some(a),
    }
}
#[cfg(not(triomphe_verif))]
fn learn_addr(_touch: &dyn Fn()) -> Option<usize> {
    let _ = &SEEN_ADDR;
    None
}

/// Child side: returns only on harness problems (exit code 3); otherwise exits 0 after printing AFTER/CAUGHT.
pub fn child(entry: usize, start: usize) -> i32 {
    macro_rules! go {
        ($heap:expr, $count:expr, $touch:expr, $act:expr) => {{
            let heap: usize = $heap;
            // where is the counter? ask the hook; fall back to the block start, validated differentially
            let addr = match learn_addr(&$touch) {
                Some(a) => a,
                None => heap,
            };
            let cell = unsafe { &*(addr as *const AtomicUsize) };
            if cell.load(Relaxed) != 1 || $count != 1 {
                println!("HARNESS counter not found (word={} count={})", cell.load(Relaxed), $count);
                return 3;
            }
            cell.store(7, Relaxed);
            if $count != 7 {
                println!("HARNESS counter not found (accessor does not follow the word)");
                return 3;
            }
            cell.store(start, Relaxed);
            println!("BEFORE entry={} start={}", ENTRIES[entry], start);
            let _ = std::io::stdout().flush();
            let r = std::panic::catch_unwind(std::panic::AssertUnwindSafe(|| {
                let h = $act;
                std::mem::forget(h);
            }));
            match r {
                Ok(()) => println!("AFTER count={} word={}", $count, cell.load(Relaxed)),
                Err(_) => println!("CAUGHT"),
            }
            let _ = std::io::stdout().flush();
            std::process::exit(0);
        }};
    }
    match entry {
        0 => {
            let a: Arc<u64> = Arc::new(5);
            go!(
                a.heap_ptr() as usize,
                Arc::count(&a),
                || {
                    Arc::count(&a);
                },
                a.clone()
            )
        }
        1 => {
            let a: Arc<[u16]> = Arc::from(vec![1u16, 2, 3]);
            go!(
                a.heap_ptr() as usize,
                Arc::count(&a),
                || {
                    Arc::count(&a);
                },
                a.clone()
            )
        }
        2 => {
            let p = Arc::into_raw(Arc::new(9u32)) as *const dyn Dy;
            let a: Arc<dyn Dy> = unsafe { Arc::from_raw(p) };
            go!(
                a.heap_ptr() as usize,
                Arc::count(&a),
                || {
                    Arc::count(&a);
                },
                a.clone()
            )
        }
        3 => {
            let t: ThinArc<u8, u32> = ThinArc::from_header_and_slice(1, &[1, 2, 3]);
            go!(
                t.heap_ptr() as usize,
                ThinArc::strong_count(&t),
                || {
                    ThinArc::strong_count(&t);
                },
                t.clone()
            )
        }
        4 => {
            let o = Arc::into_raw_offset(Arc::new(5u64));
            go!(
                o.with_arc(|a| a.heap_ptr() as usize),
                OffsetArc::strong_count(&o),
                || {
                    OffsetArc::strong_count(&o);
                },
                o.clone()
            )
        }
        5 => {
            let o = Arc::into_raw_offset(Arc::new(5u64));
            go!(
                o.with_arc(|a| a.heap_ptr() as usize),
                OffsetArc::strong_count(&o),
                || {
                    OffsetArc::strong_count(&o);
                },
                o.clone_arc()
            )
        }
        6 => {
            let a: Arc<u64> = Arc::new(5);
            let b = a.borrow_arc();
            go!(
                a.heap_ptr() as usize,
                ArcBorrow::strong_count(&b),
                || {
                    ArcBorrow::strong_count(&b);
                },
                b.clone_arc()
            )
        }
        7 => {
            let u: ArcUnion<u64, u32> = ArcUnion::from_first(Arc::new(5));
            let heap = u.as_first().unwrap().with_arc(|a| a.heap_ptr() as usize);
            go!(
                heap,
                ArcUnion::strong_count(&u),
                || {
                    ArcUnion::strong_count(&u);
                },
                u.clone()
            )
        }
        8 => {
            let u: ArcUnion<u64, u32> = ArcUnion::from_second(Arc::new(5));
            let heap = u.as_second().unwrap().with_arc(|a| a.heap_ptr() as usize);
            go!(
                heap,
                ArcUnion::strong_count(&u),
                || {
                    ArcUnion::strong_count(&u);
                },
                u.clone()
            )
        }
        9 => {
            let t: ThinArc<u8, u32> = ThinArc::from_header_and_slice(1, &[1, 2, 3]);
            go!(
                t.heap_ptr() as usize,
                ThinArc::strong_count(&t),
                || {
                    ThinArc::strong_count(&t);
                },
                t.with_arc(|a| a.clone())
            )
        }
        10 => {
            let o = Arc::into_raw_offset(Arc::new(5u64));
            go!(
                o.with_arc(|a| a.heap_ptr() as usize),
                OffsetArc::strong_count(&o),
                || {
                    OffsetArc::strong_count(&o);
                },
                o.with_arc(|a| a.clone())
            )
        }
        11 => {
            let a: Arc<u64> = Arc::new(5);
            let b = a.borrow_arc();
            go!(
                a.heap_ptr() as usize,
                ArcBorrow::strong_count(&b),
                || {
                    ArcBorrow::strong_count(&b);
                },
                b.with_arc(|x| x.clone())
            )
        }
        12 => {
            let a: Arc<u64> = Arc::new(5);
            go!(
                a.heap_ptr() as usize,
                Arc::count(&a),
                || {
                    Arc::count(&a);
                },
                a.with_raw_offset_arc(|o| o.clone())
            )
        }
        _ => {
            let mut t: ThinArc<u8, u32> = ThinArc::from_header_and_slice(1, &[1, 2, 3]);
            let heap = t.heap_ptr() as usize;
            let tp = &mut t as *mut ThinArc<u8, u32>;
            go!(
                heap,
                ThinArc::strong_count(unsafe { &*tp }),
                || {
                    ThinArc::strong_count(unsafe { &*tp });
                },
                unsafe { &mut *tp }.with_arc_mut(|a| a.clone())
            )
        }
    }
}

/// Parent side: one child per (entry, start).
pub fn parent(entry: usize, st: &mut OStats) -> R {
    let exe = std::env::current_exe().map_err(|e| Viol {
        props: "",
        oracle: "harness",
        msg: format!("current_exe: {}", e),
    })?;
    let max = isize::MAX as usize;
    for start in starts() {
        let out = std::process::Command::new(&exe)
            .args([
                "ovchild",
                &format!("entry={}", entry),
                &format!("start={}", start),
            ])
            .output()
            .map_err(|e| Viol {
                props: "",
                oracle: "harness",
                msg: format!("spawn: {}", e),
            })?;
        let so = String::from_utf8_lossy(&out.stdout).to_string();
        let what = format!("{} at count {:#x}", ENTRIES[entry], start);
        use std::os::unix::process::ExitStatusExt;
        if so.contains("HARNESS") || !so.contains("BEFORE") {
            return viol(
                "",
                "harness",
                format!(
                    "{}: child could not set up: {} {}",
                    what,
                    so.trim(),
                    String::from_utf8_lossy(&out.stderr)
                        .lines()
                        .last()
                        .unwrap_or("")
                ),
            );
        }
        ensure!(
            !so.contains("CAUGHT"),
            "C16",
            "overflow",
            "{}: the clone ended in a catchable panic instead of succeeding or aborting the process",
            what
        );
        let after = so
            .lines()
            .find(|l| l.starts_with("AFTER"))
            .map(|l| l.to_string());
        let outcome;
        match (&after, out.status.signal()) {
            (Some(line), None) => {
                ensure!(
                    out.status.success(),
                    "",
                    "harness",
                    "{}: child printed AFTER but exited with {:?}",
                    what,
                    out.status
                );
                ensure!(
                    start <= max,
                    "C16",
                    "overflow",
                    "{}: the clone succeeded although the count had passed isize::MAX ({})",
                    what,
                    line
                );
                let want = format!(
                    "count={} word={}",
                    start.wrapping_add(1),
                    start.wrapping_add(1)
                );
                ensure!(
                    line.ends_with(&want),
                    "C16,C04",
                    "overflow",
                    "{}: a successful clone must add exactly one; child reports '{}', expected '{}'",
                    what,
                    line,
                    want
                );
                outcome = "cloned";
            }
            (None, Some(sig)) => {
                ensure!(
                    start >= max,
                    "C16",
                    "overflow",
                    "{}: the process died with signal {} although the count is below the limit",
                    what,
                    sig
                );
                ensure!(
                    sig == 6 || sig == 4,
                    "C16",
                    "overflow",
                    "{}: the process died with signal {} rather than aborting",
                    what,
                    sig
                );
                outcome = "aborted";
            }
            (None, None) => {
                return viol(
                    "C16",
                    "overflow",
                    format!(
                        "{}: the child exited with {:?} without finishing the clone or aborting",
                        what,
                        out.status.code()
                    ),
                );
            }
            (Some(_), Some(sig)) => {
                return viol(
                    "",
                    "harness",
                    format!(
                        "{}: child printed AFTER and then died with signal {}",
                        what, sig
                    ),
                );
            }
        }
        st.counts.bump(&format!("overflow.{}", outcome));
        st.counts.bump("overflow.children");
        st.cases.insert(hash64(&format!("{}|{}", entry, start)));
        if st.sample.len() < 8 && (start == max + 1 || start == 2) {
            st.sample.push(format!("{} -> {}", what, outcome));
        }
    }
    Ok(())
}
