//! serde engine [C17]: serialising an Arc / UniqueArc drives the serializer with exactly the calls
//! the value itself would, errors included; deserialising yields a fresh sole owner equal to what
//! the value's own deserialiser yields; errors pass through unchanged and leave nothing behind.
#![cfg(feature = "full")]

use crate::ensure;
use crate::shadow;
use crate::util::*;
use serde::de::{
    self, Deserialize, DeserializeSeed, Deserializer, IntoDeserializer, MapAccess, SeqAccess,
    Visitor,
};
use serde::ser::{
    self, Serialize, SerializeMap, SerializeSeq, SerializeStruct, SerializeStructVariant,
    SerializeTuple, SerializeTupleStruct, SerializeTupleVariant, Serializer,
};
use std::cell::RefCell;
use std::collections::{BTreeMap, BTreeSet};
use std::fmt;
use std::rc::Rc;
use triomphe::{Arc, UniqueArc};

pub struct SdStats {
    pub counts: Counts,
    pub cases: BTreeSet<u64>,
    pub sample: Vec<String>,
}
impl SdStats {
    pub fn new() -> Self {
        SdStats {
            counts: Counts::default(),
            cases: BTreeSet::new(),
            sample: Vec::new(),
        }
    }
}

// ---------------------------------------------------------------------------------------------
// recording serializer with an injectable failure at the k-th call

#[derive(Debug, Clone, PartialEq)]
pub struct SerErr(pub String);
impl fmt::Display for SerErr {
    fn fmt(&self, f: &mut fmt::Formatter) -> fmt::Result {
        write!(f, "{}", self.0)
    }
}
impl std::error::Error for SerErr {}
impl ser::Error for SerErr {
    fn custom<T: fmt::Display>(msg: T) -> Self {
        SerErr(format!("custom:{}", msg))
    }
}
impl de::Error for SerErr {
    fn custom<T: fmt::Display>(msg: T) -> Self {
        SerErr(format!("custom:{}", msg))
    }
}

#[derive(Clone)]
pub struct Rec {
    log: Rc<RefCell<Vec<String>>>,
    fail_at: usize, // 0 = never
}
impl Rec {
    fn new(fail_at: usize) -> Rec {
        Rec {
            log: Rc::new(RefCell::new(Vec::new())),
            fail_at,
        }
    }
    fn call(&self, what: String) -> Result<(), SerErr> {
        let mut l = self.log.borrow_mut();
        l.push(what);
        if self.fail_at != 0 && l.len() == self.fail_at {
            return Err(SerErr(format!(
                "injected failure at serializer call {}",
                l.len()
            )));
        }
        Ok(())
    }
}

macro_rules! prim {
    ($name:ident, $t:ty) => {
        fn $name(self, v: $t) -> Result<(), SerErr> {
            self.call(format!("{}({:?})", stringify!($name), v))
        }
    };
}

impl Serializer for Rec {
    type Ok = ();
    type Error = SerErr;
    type SerializeSeq = Rec;
    type SerializeTuple = Rec;
    type SerializeTupleStruct = Rec;
    type SerializeTupleVariant = Rec;
    type SerializeMap = Rec;
    type SerializeStruct = Rec;
    type SerializeStructVariant = Rec;
    prim!(serialize_bool, bool);
    prim!(serialize_i8, i8);
    prim!(serialize_i16, i16);
    prim!(serialize_i32, i32);
    prim!(serialize_i64, i64);
    prim!(serialize_u8, u8);
    prim!(serialize_u16, u16);
    prim!(serialize_u32, u32);
    prim!(serialize_u64, u64);
    prim!(serialize_f32, f32);
    prim!(serialize_f64, f64);
    prim!(serialize_char, char);
    prim!(serialize_str, &str);
    prim!(serialize_bytes, &[u8]);
    fn serialize_none(self) -> Result<(), SerErr> {
        self.call("serialize_none".into())
    }
    fn serialize_some<T: ?Sized + Serialize>(self, v: &T) -> Result<(), SerErr> {
        self.call("serialize_some".into())?;
        v.serialize(self)
    }
    fn serialize_unit(self) -> Result<(), SerErr> {
        self.call("serialize_unit".into())
    }
    fn serialize_unit_struct(self, n: &'static str) -> Result<(), SerErr> {
        self.call(format!("serialize_unit_struct({})", n))
    }
    fn serialize_unit_variant(
        self,
        n: &'static str,
        i: u32,
        v: &'static str,
    ) -> Result<(), SerErr> {
        self.call(format!("serialize_unit_variant({},{},{})", n, i, v))
    }
    fn serialize_newtype_struct<T: ?Sized + Serialize>(
        self,
        n: &'static str,
        v: &T,
    ) -> Result<(), SerErr> {
        self.call(format!("serialize_newtype_struct({})", n))?;
        v.serialize(self)
    }
    fn serialize_newtype_variant<T: ?Sized + Serialize>(
        self,
        n: &'static str,
        i: u32,
        var: &'static str,
        v: &T,
    ) -> Result<(), SerErr> {
        self.call(format!("serialize_newtype_variant({},{},{})", n, i, var))?;
        v.serialize(self)
    }
    fn serialize_seq(self, len: Option<usize>) -> Result<Rec, SerErr> {
        self.call(format!("serialize_seq({:?})", len))?;
        Ok(self)
    }
    fn serialize_tuple(self, len: usize) -> Result<Rec, SerErr> {
        self.call(format!("serialize_tuple({})", len))?;
        Ok(self)
    }
    fn serialize_tuple_struct(self, n: &'static str, len: usize) -> Result<Rec, SerErr> {
        self.call(format!("serialize_tuple_struct({},{})", n, len))?;
        Ok(self)
    }
    fn serialize_tuple_variant(
        self,
        n: &'static str,
        i: u32,
        v: &'static str,
        len: usize,
    ) -> Result<Rec, SerErr> {
        self.call(format!(
            "serialize_tuple_variant({},{},{},{})",
            n, i, v, len
        ))?;
        Ok(self)
    }
    fn serialize_map(self, len: Option<usize>) -> Result<Rec, SerErr> {
        self.call(format!("serialize_map({:?})", len))?;
        Ok(self)
    }
    fn serialize_struct(self, n: &'static str, len: usize) -> Result<Rec, SerErr> {
        self.call(format!("serialize_struct({},{})", n, len))?;
        Ok(self)
    }
    fn serialize_struct_variant(
        self,
        n: &'static str,
        i: u32,
        v: &'static str,
        len: usize,
    ) -> Result<Rec, SerErr> {
        self.call(format!(
            "serialize_struct_variant({},{},{},{})",
            n, i, v, len
        ))?;
        Ok(self)
    }
    fn is_human_readable(&self) -> bool {
        let _ = self.call("is_human_readable".into());
        true
    }
}
impl SerializeSeq for Rec {
    type Ok = ();
    type Error = SerErr;
    fn serialize_element<T: ?Sized + Serialize>(&mut self, v: &T) -> Result<(), SerErr> {
        self.call("seq.element".into())?;
        v.serialize(self.clone())
    }
    fn end(self) -> Result<(), SerErr> {
        self.call("seq.end".into())
    }
}
impl SerializeTuple for Rec {
    type Ok = ();
    type Error = SerErr;
    fn serialize_element<T: ?Sized + Serialize>(&mut self, v: &T) -> Result<(), SerErr> {
        self.call("tuple.element".into())?;
        v.serialize(self.clone())
    }
    fn end(self) -> Result<(), SerErr> {
        self.call("tuple.end".into())
    }
}
impl SerializeTupleStruct for Rec {
    type Ok = ();
    type Error = SerErr;
    fn serialize_field<T: ?Sized + Serialize>(&mut self, v: &T) -> Result<(), SerErr> {
        self.call("tuple_struct.field".into())?;
        v.serialize(self.clone())
    }
    fn end(self) -> Result<(), SerErr> {
        self.call("tuple_struct.end".into())
    }
}
impl SerializeTupleVariant for Rec {
    type Ok = ();
    type Error = SerErr;
    fn serialize_field<T: ?Sized + Serialize>(&mut self, v: &T) -> Result<(), SerErr> {
        self.call("tuple_variant.field".into())?;
        v.serialize(self.clone())
    }
    fn end(self) -> Result<(), SerErr> {
        self.call("tuple_variant.end".into())
    }
}
impl SerializeMap for Rec {
    type Ok = ();
    type Error = SerErr;
    fn serialize_key<T: ?Sized + Serialize>(&mut self, v: &T) -> Result<(), SerErr> {
        self.call("map.key".into())?;
        v.serialize(self.clone())
    }
    fn serialize_value<T: ?Sized + Serialize>(&mut self, v: &T) -> Result<(), SerErr> {
        self.call("map.value".into())?;
        v.serialize(self.clone())
    }
    fn end(self) -> Result<(), SerErr> {
        self.call("map.end".into())
    }
}
impl SerializeStruct for Rec {
    type Ok = ();
    type Error = SerErr;
    fn serialize_field<T: ?Sized + Serialize>(
        &mut self,
        k: &'static str,
        v: &T,
    ) -> Result<(), SerErr> {
        self.call(format!("struct.field({})", k))?;
        v.serialize(self.clone())
    }
    fn end(self) -> Result<(), SerErr> {
        self.call("struct.end".into())
    }
}
impl SerializeStructVariant for Rec {
    type Ok = ();
    type Error = SerErr;
    fn serialize_field<T: ?Sized + Serialize>(
        &mut self,
        k: &'static str,
        v: &T,
    ) -> Result<(), SerErr> {
        self.call(format!("struct_variant.field({})", k))?;
        v.serialize(self.clone())
    }
    fn end(self) -> Result<(), SerErr> {
        self.call("struct_variant.end".into())
    }
}

fn trace<T: Serialize + ?Sized>(v: &T, fail_at: usize) -> (Result<(), SerErr>, Vec<String>) {
    let r = Rec::new(fail_at);
    let log = r.log.clone();
    let res = v.serialize(r);
    let l = log.borrow().clone();
    (res, l)
}

// ---------------------------------------------------------------------------------------------
// payload family with hand-written impls

/// Zero-sized payloads whose serialisation is *not* the bare unit call.
#[derive(Debug, Clone, PartialEq)]
pub struct Marker;
impl Serialize for Marker {
    fn serialize<S: Serializer>(&self, s: S) -> Result<S::Ok, S::Error> {
        s.serialize_unit_struct("Marker")
    }
}
#[derive(Debug, Clone, PartialEq)]
pub struct ZTagged;
impl Serialize for ZTagged {
    fn serialize<S: Serializer>(&self, s: S) -> Result<S::Ok, S::Error> {
        let mut st = s.serialize_struct("ZTagged", 1)?;
        st.serialize_field("kind", &7u8)?;
        st.end()
    }
}

#[derive(Debug, Clone, PartialEq)]
pub struct Pt {
    x: i32,
    y: String,
    tags: Vec<u16>,
}
impl Serialize for Pt {
    fn serialize<S: Serializer>(&self, s: S) -> Result<S::Ok, S::Error> {
        let mut st = s.serialize_struct("Pt", 3)?;
        st.serialize_field("x", &self.x)?;
        st.serialize_field("y", &self.y)?;
        st.serialize_field("tags", &self.tags)?;
        st.end()
    }
}
impl<'de> Deserialize<'de> for Pt {
    fn deserialize<D: Deserializer<'de>>(d: D) -> Result<Pt, D::Error> {
        struct V;
        impl<'de> Visitor<'de> for V {
            type Value = Pt;
            fn expecting(&self, f: &mut fmt::Formatter) -> fmt::Result {
                write!(f, "a Pt as a sequence")
            }
            fn visit_seq<A: SeqAccess<'de>>(self, mut a: A) -> Result<Pt, A::Error> {
                let x = a
                    .next_element::<i32>()?
                    .ok_or_else(|| de::Error::invalid_length(0, &self))?;
                let y = a
                    .next_element::<String>()?
                    .ok_or_else(|| de::Error::invalid_length(1, &self))?;
                let mut tags = Vec::new();
                while let Some(t) = a.next_element::<u16>()? {
                    tags.push(t);
                }
                Ok(Pt { x, y, tags })
            }
        }
        d.deserialize_seq(V)
    }
}

#[derive(Debug, Clone, PartialEq)]
pub enum Shape {
    Unit,
    New(u8),
    Tup(i16, String),
    St { a: bool, b: Option<u32> },
}
impl Serialize for Shape {
    fn serialize<S: Serializer>(&self, s: S) -> Result<S::Ok, S::Error> {
        match self {
            Shape::Unit => s.serialize_unit_variant("Shape", 0, "Unit"),
            Shape::New(v) => s.serialize_newtype_variant("Shape", 1, "New", v),
            Shape::Tup(a, b) => {
                let mut t = s.serialize_tuple_variant("Shape", 2, "Tup", 2)?;
                t.serialize_field(a)?;
                t.serialize_field(b)?;
                t.end()
            }
            Shape::St { a, b } => {
                let mut t = s.serialize_struct_variant("Shape", 3, "St", 2)?;
                t.serialize_field("a", a)?;
                t.serialize_field("b", b)?;
                t.end()
            }
        }
    }
}

#[derive(Debug, Clone, PartialEq)]
pub struct Nest {
    p: Pt,
    shapes: Vec<Shape>,
    m: BTreeMap<String, (u8, i64)>,
    w: Wrap,
}
#[derive(Debug, Clone, PartialEq)]
pub struct Wrap(u64);
impl Serialize for Wrap {
    fn serialize<S: Serializer>(&self, s: S) -> Result<S::Ok, S::Error> {
        if s.is_human_readable() {
            s.serialize_newtype_struct("Wrap", &self.0)
        } else {
            s.serialize_u64(self.0)
        }
    }
}
impl Serialize for Nest {
    fn serialize<S: Serializer>(&self, s: S) -> Result<S::Ok, S::Error> {
        let mut st = s.serialize_struct("Nest", 4)?;
        st.serialize_field("p", &self.p)?;
        st.serialize_field("shapes", &self.shapes)?;
        st.serialize_field("m", &self.m)?;
        st.serialize_field("w", &self.w)?;
        st.end()
    }
}

fn gen_pt(r: &mut Rng) -> Pt {
    Pt {
        x: r.next() as i32,
        y: (0..r.below(6))
            .map(|_| (b'a' + r.below(26) as u8) as char)
            .collect(),
        tags: (0..r.below(5)).map(|_| r.next() as u16).collect(),
    }
}
fn gen_shape(r: &mut Rng) -> Shape {
    match r.below(4) {
        0 => Shape::Unit,
        1 => Shape::New(r.next() as u8),
        2 => Shape::Tup(r.next() as i16, "é∂".repeat(r.below(3))),
        _ => Shape::St {
            a: r.below(2) == 0,
            b: if r.below(2) == 0 {
                None
            } else {
                Some(r.next() as u32)
            },
        },
    }
}
fn gen_nest(r: &mut Rng) -> Nest {
    let mut m = BTreeMap::new();
    for _ in 0..r.below(4) {
        m.insert(
            format!("k{}", r.below(50)),
            (r.next() as u8, r.next() as i64),
        );
    }
    Nest {
        p: gen_pt(r),
        shapes: (0..r.below(4)).map(|_| gen_shape(r)).collect(),
        m,
        w: Wrap(r.next()),
    }
}

/// Serialisation transparency for one value: traces of T, Arc<T>, UniqueArc<T> are identical,
/// without failure and with a failure injected at every k.
fn ser_case<T: Serialize + Clone>(name: &str, v: &T, st: &mut SdStats) -> R {
    let a = Arc::new(v.clone());
    let a2 = a.clone();
    let u = UniqueArc::new(v.clone());
    let (r0, t0) = trace(v, 0);
    ensure!(
        r0.is_ok(),
        "",
        "harness",
        "{}: reference serialisation failed",
        name
    );
    for k in 0..=t0.len() + 1 {
        let (rv, tv) = trace(v, k);
        let (ra, ta) = trace(&a, k);
        let (ru, tu) = trace(&u, k);
        ensure!(
            ra == rv && ta == tv,
            "C17",
            "serde",
            "{}: serialising Arc<T> (failure at call {}) gave {:?} with calls {:?}; the value alone gives {:?} with calls {:?}",
            name,
            k,
            ra,
            ta,
            rv,
            tv
        );
        ensure!(
            ru == rv && tu == tv,
            "C17",
            "serde",
            "{}: serialising UniqueArc<T> (failure at call {}) gave {:?} with calls {:?}; the value alone gives {:?} with calls {:?}",
            name,
            k,
            ru,
            tu,
            rv,
            tv
        );
        ensure!(
            Arc::count(&a) == 2,
            "C17,C04",
            "serde",
            "{}: serialising changed the count to {}",
            name,
            Arc::count(&a)
        );
        st.counts.bump("serde.ser_runs");
    }
    drop(a2);
    st.counts.add("serde.ser_calls_compared", t0.len() as u64);
    st.cases
        .insert(hash64(&format!("ser|{}|{}", name, t0.len())));
    if st.sample.len() < 4 {
        st.sample.push(format!(
            "{}: {} serializer calls, e.g. {:?}",
            name,
            t0.len(),
            &t0[..t0.len().min(6)]
        ));
    }
    Ok(())
}

// ---------------------------------------------------------------------------------------------
// deserialisation

/// A scripted deserializer: a sequence of u32-ish elements that fails at the k-th access.
struct ScriptDe {
    items: Vec<u32>,
    fail_at: usize, // 0 = never; counts seq accesses from 1
}
struct ScriptSeq {
    items: std::vec::IntoIter<u32>,
    n: usize,
    fail_at: usize,
}
impl<'de> SeqAccess<'de> for ScriptSeq {
    type Error = SerErr;
    fn next_element_seed<T: DeserializeSeed<'de>>(
        &mut self,
        seed: T,
    ) -> Result<Option<T::Value>, SerErr> {
        self.n += 1;
        if self.fail_at != 0 && self.n == self.fail_at {
            return Err(SerErr(format!(
                "injected failure at deserializer access {}",
                self.n
            )));
        }
        match self.items.next() {
            Some(v) => seed.deserialize(v.into_deserializer()).map(Some),
            None => Ok(None),
        }
    }
}
impl<'de> Deserializer<'de> for ScriptDe {
    type Error = SerErr;
    fn deserialize_any<V: Visitor<'de>>(self, v: V) -> Result<V::Value, SerErr> {
        if self.fail_at == usize::MAX {
            return Err(SerErr("injected failure before any access".into()));
        }
        v.visit_seq(ScriptSeq {
            items: self.items.into_iter(),
            n: 0,
            fail_at: self.fail_at,
        })
    }
    serde::forward_to_deserialize_any! {
        bool i8 i16 i32 i64 i128 u8 u16 u32 u64 u128 f32 f64 char str string bytes byte_buf option unit unit_struct newtype_struct seq tuple tuple_struct map struct enum identifier ignored_any
    }
}

struct MapDe(Vec<(String, u32)>, usize);
struct MapAcc {
    items: std::vec::IntoIter<(String, u32)>,
    cur: Option<u32>,
    n: usize,
    fail_at: usize,
}
impl<'de> MapAccess<'de> for MapAcc {
    type Error = SerErr;
    fn next_key_seed<K: DeserializeSeed<'de>>(
        &mut self,
        seed: K,
    ) -> Result<Option<K::Value>, SerErr> {
        self.n += 1;
        if self.fail_at != 0 && self.n == self.fail_at {
            return Err(SerErr(format!("injected failure at map access {}", self.n)));
        }
        match self.items.next() {
            Some((k, v)) => {
                self.cur = Some(v);
                seed.deserialize(k.into_deserializer()).map(Some)
            }
            None => Ok(None),
        }
    }
    fn next_value_seed<V: DeserializeSeed<'de>>(&mut self, seed: V) -> Result<V::Value, SerErr> {
        self.n += 1;
        if self.fail_at != 0 && self.n == self.fail_at {
            return Err(SerErr(format!("injected failure at map access {}", self.n)));
        }
        seed.deserialize(self.cur.take().unwrap().into_deserializer())
    }
}
impl<'de> Deserializer<'de> for MapDe {
    type Error = SerErr;
    fn deserialize_any<V: Visitor<'de>>(self, v: V) -> Result<V::Value, SerErr> {
        v.visit_map(MapAcc {
            items: self.0.into_iter(),
            cur: None,
            n: 0,
            fail_at: self.1,
        })
    }
    serde::forward_to_deserialize_any! {
        bool i8 i16 i32 i64 i128 u8 u16 u32 u64 u128 f32 f64 char str string bytes byte_buf option unit unit_struct newtype_struct seq tuple tuple_struct map struct enum identifier ignored_any
    }
}

/// Compare Arc<T>/UniqueArc<T> deserialisation with T's own, from deserializers made by `mk`.
fn de_case<'de, T, D, F>(name: &str, mk: F, st: &mut SdStats) -> R
where
    T: Deserialize<'de> + PartialEq + fmt::Debug,
    D: Deserializer<'de>,
    D::Error: fmt::Debug + PartialEq,
    F: Fn() -> D,
{
    shadow::reset();
    let base = shadow::tracked(|| T::deserialize(mk()));
    let blocks_value = shadow::live_count();
    let got_a: Result<Arc<T>, D::Error> = shadow::tracked(|| Arc::<T>::deserialize(mk()));
    let got_u: Result<UniqueArc<T>, D::Error> =
        shadow::tracked(|| UniqueArc::<T>::deserialize(mk()));
    match (&base, &got_a, &got_u) {
        (Ok(v), Ok(a), Ok(u)) => {
            ensure!(
                **a == *v,
                "C17",
                "serde",
                "{}: Arc<T> deserialised to {:?}, T alone to {:?}",
                name,
                &**a,
                v
            );
            ensure!(
                **u == *v,
                "C17",
                "serde",
                "{}: UniqueArc<T> deserialised to {:?}, T alone to {:?}",
                name,
                &**u,
                v
            );
            ensure!(
                Arc::count(a) == 1 && a.is_unique(),
                "C17",
                "serde",
                "{}: the deserialised Arc is not a sole owner (count {})",
                name,
                Arc::count(a)
            );
            if shadow::active() {
                // one value's worth of blocks per result, plus one Arc block for each handle
                ensure!(
                    shadow::live_count() == 3 * blocks_value + 2,
                    "C17",
                    "serde",
                    "{}: {} blocks alive after deserialising T, Arc<T> and UniqueArc<T>; T alone needs {}",
                    name,
                    shadow::live_count(),
                    blocks_value
                );
            }
            // the hidden entry point Deserialize::deserialize_in_place on an existing, *shared* Arc: the result must
            // again be a fresh sole owner; the other owners keep their allocation, one reference lighter
            {
                let keep = shadow::tracked(|| a.clone());
                let mut place = shadow::tracked(|| a.clone());
                let before = Arc::count(&keep);
                let r = shadow::tracked(|| <Arc<T> as Deserialize>::deserialize_in_place(mk(), &mut place));
                ensure!(r.is_ok(), "C17", "serde", "{}: deserialize_in_place into an Arc failed although T deserialises", name);
                ensure!(
                    *place == *v && place.is_unique() && place.heap_ptr() != keep.heap_ptr(),
                    "C17",
                    "serde",
                    "{}: deserialize_in_place into a shared Arc did not produce a fresh sole owner (count {}, same allocation: {})",
                    name,
                    Arc::count(&place),
                    place.heap_ptr() == keep.heap_ptr()
                );
                ensure!(
                    Arc::count(&keep) == before - 1 && *keep == *v,
                    "C17,C04",
                    "serde",
                    "{}: after deserialize_in_place the previous allocation reports count {} (expected {})",
                    name,
                    Arc::count(&keep),
                    before - 1
                );
                let mut up = shadow::tracked(|| UniqueArc::<T>::deserialize(mk())).ok();
                if let Some(up) = up.as_mut() {
                    let r = shadow::tracked(|| <UniqueArc<T> as Deserialize>::deserialize_in_place(mk(), up));
                    ensure!(r.is_ok() && **up == *v, "C17", "serde", "{}: deserialize_in_place into a UniqueArc gave a different value", name);
                }
                shadow::tracked(|| {
                    drop(up);
                    drop(place);
                    drop(keep);
                });
                st.counts.bump("serde.de_in_place");
            }
            st.counts.bump("serde.de_ok");
        }
        (Err(e), Err(ea), Err(eu)) => {
            ensure!(
                ea == e && eu == e,
                "C17",
                "serde",
                "{}: error changed on the way: Arc {:?}, UniqueArc {:?}, value {:?}",
                name,
                ea,
                eu,
                e
            );
            st.counts.bump("serde.de_err");
        }
        _ => {
            return viol(
                "C17",
                "serde",
                format!(
                    "{}: T alone gives {:?} but Arc<T> gives {:?} and UniqueArc<T> gives {:?}",
                    name,
                    base.as_ref().map(|_| "Ok"),
                    got_a.as_ref().map(|_| "Ok"),
                    got_u.as_ref().map(|_| "Ok")
                ),
            );
        }
    }
    shadow::tracked(|| {
        drop(base);
        drop(got_a);
        drop(got_u);
    });
    if shadow::active() {
        if let Some(x) = shadow::take_findings().first() {
            return viol(
                "C17",
                "serde",
                format!("{}: allocator monitor: {:?}", name, x),
            );
        }
        ensure!(
            shadow::live_count() == 0,
            "C17",
            "serde",
            "{}: {} blocks left behind by deserialisation",
            name,
            shadow::live_count()
        );
    }
    st.counts.bump("serde.de_runs");
    st.cases.insert(hash64(&format!("de|{}", name)));
    Ok(())
}

pub fn run(seed: u64, n: usize, part: &str, st: &mut SdStats) -> Vec<Viol> {
    let mut out = Vec::new();
    let mut rng = Rng::new(seed);
    let mut go = |r: R, out: &mut Vec<Viol>| {
        if let Err(v) = r {
            if out.len() < 6 {
                out.push(v);
            }
        }
    };
    for i in 0..n {
        if part != "de" {
            go(ser_case("i32", &(rng.next() as i32), st), &mut out);
            go(ser_case("u64", &rng.next(), st), &mut out);
            go(
                ser_case("String", &format!("s{}é", rng.below(1000)), st),
                &mut out,
            );
            go(
                ser_case(
                    "(u8,String,bool)",
                    &(rng.next() as u8, format!("t{}", i), i % 2 == 0),
                    st,
                ),
                &mut out,
            );
            go(
                ser_case(
                    "Vec<u32>",
                    &(0..rng.below(6))
                        .map(|_| rng.next() as u32)
                        .collect::<Vec<u32>>(),
                    st,
                ),
                &mut out,
            );
            go(
                ser_case(
                    "Option<i8>",
                    &if i % 3 == 0 {
                        None
                    } else {
                        Some(rng.next() as i8)
                    },
                    st,
                ),
                &mut out,
            );
            let mut m = BTreeMap::new();
            for _ in 0..rng.below(4) {
                m.insert(format!("k{}", rng.below(9)), rng.next() as u16);
            }
            go(ser_case("BTreeMap<String,u16>", &m, st), &mut out);
            go(
                ser_case("Pt(hand-written struct)", &gen_pt(&mut rng), st),
                &mut out,
            );
            go(
                ser_case("Shape(hand-written enum)", &gen_shape(&mut rng), st),
                &mut out,
            );
            go(
                ser_case("Nest(nested, is_human_readable)", &gen_nest(&mut rng), st),
                &mut out,
            );
            go(
                ser_case("Arc<Arc<Pt>>", &Arc::new(gen_pt(&mut rng)), st),
                &mut out,
            );
            go(ser_case("()", &(), st), &mut out);
            go(ser_case("Marker (zero-sized unit struct)", &Marker, st), &mut out);
            go(ser_case("ZTagged (zero-sized, serialises as a struct)", &ZTagged, st), &mut out);
            go(ser_case("[u8; 0]", &[0u8; 0], st), &mut out);
            go(ser_case("PhantomData<u32>", &std::marker::PhantomData::<u32>, st), &mut out);
            go(ser_case("f64", &(rng.next() as f64 / 7.0), st), &mut out);
        }
        if part == "ser" {
            continue;
        }

        // deserialisation from serde's in-memory value deserializers
        let x = rng.next() as u32;
        go(
            de_case::<u32, _, _>(
                "u32 from U32Deserializer",
                || IntoDeserializer::<de::value::Error>::into_deserializer(x),
                st,
            ),
            &mut out,
        );
        go(
            de_case::<u8, _, _>(
                "u8 from a possibly too large u32 (error path)",
                || IntoDeserializer::<de::value::Error>::into_deserializer(x % 400),
                st,
            ),
            &mut out,
        );
        let s = format!("str{}", rng.below(100));
        go(
            de_case::<String, _, _>(
                "String from StrDeserializer",
                || IntoDeserializer::<de::value::Error>::into_deserializer(s.as_str()),
                st,
            ),
            &mut out,
        );
        go(
            de_case::<u32, _, _>(
                "u32 from a str (type error)",
                || IntoDeserializer::<de::value::Error>::into_deserializer(s.as_str()),
                st,
            ),
            &mut out,
        );
        // large inline payloads with destructors (768 and 1536 bytes of Strings), success and error path
        if i % 8 == 0 {
            let row = |k: usize, n: usize| -> Vec<String> { (0..n).map(|j| format!("big{}-{}-{}", i, k, j)).collect() };
            let one: Vec<String> = row(0, 32);
            go(
                de_case::<[String; 32], _, _>(
                    "[String; 32] (768 bytes inline) from SeqDeserializer",
                    || IntoDeserializer::<de::value::Error>::into_deserializer(one.clone()),
                    st,
                ),
                &mut out,
            );
            let two: Vec<Vec<String>> = vec![row(1, 32), row(2, 32)];
            go(
                de_case::<([String; 32], [String; 32]), _, _>(
                    "([String; 32], [String; 32]) (1536 bytes inline) from SeqDeserializer",
                    || IntoDeserializer::<de::value::Error>::into_deserializer(two.clone()),
                    st,
                ),
                &mut out,
            );
            let short: Vec<Vec<String>> = vec![row(3, 32), row(4, 31)];
            go(
                de_case::<([String; 32], [String; 32]), _, _>(
                    "([String; 32], [String; 32]) from a sequence that is one element short (error path)",
                    || IntoDeserializer::<de::value::Error>::into_deserializer(short.clone()),
                    st,
                ),
                &mut out,
            );
        }
        let v: Vec<u32> = (0..rng.below(6))
            .map(|_| rng.next() as u32 % 70000)
            .collect();
        go(
            de_case::<Vec<u32>, _, _>(
                "Vec<u32> from SeqDeserializer",
                || IntoDeserializer::<de::value::Error>::into_deserializer(v.clone()),
                st,
            ),
            &mut out,
        );
        go(
            de_case::<Vec<u16>, _, _>(
                "Vec<u16> from a seq with possibly too large elements",
                || IntoDeserializer::<de::value::Error>::into_deserializer(v.clone()),
                st,
            ),
            &mut out,
        );
        go(
            de_case::<(u32, u32), _, _>(
                "(u32,u32) from a seq of arbitrary length",
                || IntoDeserializer::<de::value::Error>::into_deserializer(v.clone()),
                st,
            ),
            &mut out,
        );
        let mm: BTreeMap<String, u32> = (0..rng.below(4))
            .map(|k| (format!("k{}", k), rng.next() as u32))
            .collect();
        go(
            de_case::<BTreeMap<String, u32>, _, _>(
                "BTreeMap from MapDeserializer",
                || IntoDeserializer::<de::value::Error>::into_deserializer(mm.clone()),
                st,
            ),
            &mut out,
        );
        go(
            de_case::<Option<u32>, _, _>(
                "Option<u32> from a u32",
                || IntoDeserializer::<de::value::Error>::into_deserializer(x),
                st,
            ),
            &mut out,
        );
        // scripted deserializers failing at every k-th access
        let items: Vec<u32> = (0..rng.below(5) as u32).map(|k| k * 3 + 1).collect();
        for k in 0..=items.len() + 2 {
            let it = items.clone();
            go(
                de_case::<Vec<u32>, _, _>(
                    &format!("Vec<u32> from a scripted seq failing at access {}", k),
                    || ScriptDe {
                        items: it.clone(),
                        fail_at: k,
                    },
                    st,
                ),
                &mut out,
            );
            go(
                de_case::<Pt, _, _>(
                    &format!(
                        "Pt(hand-written) from a scripted seq failing at access {}",
                        k
                    ),
                    || ScriptDe {
                        items: it.clone(),
                        fail_at: k,
                    },
                    st,
                ),
                &mut out,
            );
        }
        go(
            de_case::<Vec<u32>, _, _>(
                "Vec<u32> from a deserializer failing before any access",
                || ScriptDe {
                    items: vec![],
                    fail_at: usize::MAX,
                },
                st,
            ),
            &mut out,
        );
        let pairs: Vec<(String, u32)> = (0..rng.below(4))
            .map(|k| (format!("k{}", k), k as u32))
            .collect();
        for k in 0..=2 * pairs.len() + 2 {
            let p = pairs.clone();
            go(
                de_case::<BTreeMap<String, u32>, _, _>(
                    &format!("BTreeMap from a scripted map failing at access {}", k),
                    || MapDe(p.clone(), k),
                    st,
                ),
                &mut out,
            );
        }
    }
    out
}
