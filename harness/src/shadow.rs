//! M1: shadow global allocator.
//!
//! Wraps `System`. When switched on, every allocation made by a thread that is inside
//! `tracked(..)` is recorded (address, size, align); `dealloc`/`realloc` verify that the block is
//! live and that the layout equals the one it was allocated with; freed blocks are poisoned and
//! parked in a quarantine so a later double free is recognised and a read after free returns
//! poison. An event log lets the engines ask "what was allocated / freed during this step".
//! Nothing here panics or allocates through itself; findings go to a static ring.
//!
//! It is pass-through (mode 0) under Miri / ASan / TSan / memcheck, where the tool itself is the
//! allocator oracle and where this module's lock would add synchronisation.

use std::alloc::{GlobalAlloc, Layout, System};
use std::cell::Cell;
use std::sync::atomic::{AtomicBool, AtomicU64, AtomicU8, AtomicUsize, Ordering::*};

pub struct Shadow;

static MODE: AtomicU8 = AtomicU8::new(0);
static LOCK: AtomicBool = AtomicBool::new(false);

thread_local! {
    static DEPTH: Cell<u32> = const { Cell::new(0) };
}

const CAP: usize = 1 << 15; // table entries
const QCAP: usize = 512; // quarantine entries
const QBYTES: usize = 8 << 20;
const EVCAP: usize = 1 << 13; // event ring
const FCAP: usize = 64; // findings ring
const POISON: u8 = 0xDF;

#[derive(Clone, Copy)]
struct Entry {
    addr: usize,
    size: usize,
    align: usize,
    serial: u64,
    state: u8, // 0 empty, 1 live, 2 quarantined, 3 tombstone
}

#[derive(Clone, Copy, Debug)]
pub struct Ev {
    pub serial: u64,
    pub kind: u8, // b'A' alloc, b'F' free, b'R' realloc-free half, b'N' injected failure
    pub addr: usize,
    pub size: usize,
    pub align: usize,
}

#[derive(Clone, Copy, Debug)]
pub struct Finding {
    pub kind: &'static str,
    pub addr: usize,
    pub a_size: usize,
    pub a_align: usize,
    pub d_size: usize,
    pub d_align: usize,
}

struct State {
    table: *mut Entry,
    used: usize,
    live: usize,
    q: [(usize, usize, usize); QCAP], // addr,size,align
    qhead: usize,
    qlen: usize,
    qbytes: usize,
    ev: *mut Ev,
    evn: u64,
    findings: [Option<Finding>; FCAP],
    nfind: usize,
    overflow: bool,
    fail_in: i64, // >0: countdown to an injected allocation failure
    serial: u64,
}

struct StCell(std::cell::UnsafeCell<State>);
unsafe impl Sync for StCell {}

static ST: StCell = StCell(std::cell::UnsafeCell::new(State {
    table: std::ptr::null_mut(),
    used: 0,
    live: 0,
    q: [(0, 0, 0); QCAP],
    qhead: 0,
    qlen: 0,
    qbytes: 0,
    ev: std::ptr::null_mut(),
    evn: 0,
    findings: [None; FCAP],
    nfind: 0,
    overflow: false,
    fail_in: 0,
    serial: 0,
}));

pub static TRACKED_ALLOCS: AtomicU64 = AtomicU64::new(0);
pub static TRACKED_FREES: AtomicU64 = AtomicU64::new(0);
static TOTAL_CHECKED_FREES: AtomicUsize = AtomicUsize::new(0);

struct Guard;
fn lock() -> Guard {
    while LOCK
        .compare_exchange_weak(false, true, Acquire, Relaxed)
        .is_err()
    {
        std::hint::spin_loop();
    }
    Guard
}
impl Drop for Guard {
    fn drop(&mut self) {
        LOCK.store(false, Release);
    }
}

#[allow(clippy::mut_from_ref)]
unsafe fn st() -> &'static mut State {
    let s = &mut *ST.0.get();
    if s.table.is_null() {
        let l = Layout::array::<Entry>(CAP).unwrap();
        s.table = System.alloc_zeroed(l) as *mut Entry;
        let l = Layout::array::<Ev>(EVCAP).unwrap();
        s.ev = System.alloc_zeroed(l) as *mut Ev;
    }
    s
}

fn hash(addr: usize) -> usize {
    ((addr >> 3).wrapping_mul(0x9E37_79B9_7F4A_7C15usize)) >> (usize::BITS as usize - 15)
}

impl State {
    unsafe fn find(&mut self, addr: usize) -> Option<&mut Entry> {
        let mut i = hash(addr);
        for _ in 0..CAP {
            let e = &mut *self.table.add(i);
            if e.state == 0 {
                return None;
            }
            if e.addr == addr && e.state != 3 {
                return Some(e);
            }
            i = (i + 1) & (CAP - 1);
        }
        None
    }
    unsafe fn insert(&mut self, addr: usize, size: usize, align: usize) {
        if self.used * 10 >= CAP * 7 {
            self.overflow = true;
            return;
        }
        self.serial += 1;
        let serial = self.serial;
        let mut i = hash(addr);
        loop {
            let e = &mut *self.table.add(i);
            if e.state == 0 || e.state == 3 {
                if e.state == 0 {
                    self.used += 1;
                }
                *e = Entry {
                    addr,
                    size,
                    align,
                    serial,
                    state: 1,
                };
                self.live += 1;
                return;
            }
            i = (i + 1) & (CAP - 1);
        }
    }
    unsafe fn event(&mut self, kind: u8, addr: usize, size: usize, align: usize) {
        let i = (self.evn as usize) & (EVCAP - 1);
        *self.ev.add(i) = Ev {
            serial: self.evn,
            kind,
            addr,
            size,
            align,
        };
        self.evn += 1;
    }
    fn finding(&mut self, f: Finding) {
        if self.nfind < FCAP {
            self.findings[self.nfind] = Some(f);
        }
        self.nfind += 1;
    }
    /// Move a live entry to the quarantine; evict (and really free) the oldest if full.
    unsafe fn quarantine(&mut self, addr: usize, size: usize, align: usize) {
        std::ptr::write_bytes(addr as *mut u8, POISON, size);
        while self.qlen == QCAP || (self.qlen > 0 && self.qbytes + size > QBYTES) {
            self.evict_one();
        }
        let tail = (self.qhead + self.qlen) % QCAP;
        self.q[tail] = (addr, size, align);
        self.qlen += 1;
        self.qbytes += size;
    }
    unsafe fn evict_one(&mut self) {
        let (addr, size, align) = self.q[self.qhead];
        self.qhead = (self.qhead + 1) % QCAP;
        self.qlen -= 1;
        self.qbytes -= size;
        let p = addr as *const u8;
        let mut dirty = false;
        for k in 0..size {
            if *p.add(k) != POISON {
                dirty = true;
                break;
            }
        }
        if dirty {
            self.finding(Finding {
                kind: "write-after-free",
                addr,
                a_size: size,
                a_align: align,
                d_size: 0,
                d_align: 0,
            });
        }
        if let Some(e) = self.find(addr) {
            if e.state == 2 {
                e.state = 3;
            }
        }
        System.dealloc(
            addr as *mut u8,
            Layout::from_size_align_unchecked(size, align),
        );
    }
}

fn tracking() -> bool {
    MODE.load(Relaxed) == 1 && DEPTH.try_with(|d| d.get() > 0).unwrap_or(false)
}

unsafe impl GlobalAlloc for Shadow {
    unsafe fn alloc(&self, layout: Layout) -> *mut u8 {
        if !tracking() {
            return System.alloc(layout);
        }
        let _g = lock();
        let s = st();
        if s.fail_in > 0 {
            s.fail_in -= 1;
            if s.fail_in == 0 {
                s.event(b'N', 0, layout.size(), layout.align());
                return std::ptr::null_mut();
            }
        }
        let p = System.alloc(layout);
        if !p.is_null() {
            // fresh memory is filled with a pattern so that code treating never-written bytes as a
            // value sees neither zeroes nor a stale valid-looking object
            match FILL.load(Relaxed) {
                0 => std::ptr::write_bytes(p, 0xA5, layout.size()),
                // never-written memory that looks like the word 1 (a "sole owner" count, a length of one) ...
                1 => {
                    std::ptr::write_bytes(p, 0, layout.size());
                    let mut a = (p as usize + 7) & !7;
                    while a + 8 <= p as usize + layout.size() {
                        (a as *mut usize).write(1);
                        a += 8;
                    }
                }
                // ... or like zero / null
                _ => std::ptr::write_bytes(p, 0, layout.size()),
            }
            // a block the system hands out again can no longer be "quarantined" in our books
            if let Some(e) = s.find(p as usize) {
                e.state = 3;
            }
            s.insert(p as usize, layout.size(), layout.align());
            s.event(b'A', p as usize, layout.size(), layout.align());
            TRACKED_ALLOCS.fetch_add(1, Relaxed);
        }
        p
    }

    unsafe fn dealloc(&self, ptr: *mut u8, layout: Layout) {
        if MODE.load(Relaxed) != 1 {
            return System.dealloc(ptr, layout);
        }
        let _g = lock();
        let s = st();
        let addr = ptr as usize;
        let (state, a_size, a_align) = match s.find(addr) {
            Some(e) => (e.state, e.size, e.align),
            None => (0, 0, 0),
        };
        match state {
            1 => {
                TOTAL_CHECKED_FREES.fetch_add(1, Relaxed);
                TRACKED_FREES.fetch_add(1, Relaxed);
                if a_size != layout.size() || a_align != layout.align() {
                    s.finding(Finding {
                        kind: "dealloc-layout-mismatch",
                        addr,
                        a_size,
                        a_align,
                        d_size: layout.size(),
                        d_align: layout.align(),
                    });
                }
                if let Some(e) = s.find(addr) {
                    e.state = 2;
                }
                s.live -= 1;
                s.event(b'F', addr, layout.size(), layout.align());
                // poison + park with the layout it was *allocated* with
                s.quarantine(addr, a_size, a_align);
            }
            2 => {
                s.finding(Finding {
                    kind: "double-free",
                    addr,
                    a_size,
                    a_align,
                    d_size: layout.size(),
                    d_align: layout.align(),
                });
                s.event(b'F', addr, layout.size(), layout.align());
                // do not free again
            }
            _ => {
                // not ours (allocated outside a tracked scope): hand to the system
                drop(_g);
                System.dealloc(ptr, layout);
            }
        }
    }

    unsafe fn realloc(&self, ptr: *mut u8, layout: Layout, new_size: usize) -> *mut u8 {
        if MODE.load(Relaxed) != 1 {
            return System.realloc(ptr, layout, new_size);
        }
        let known = {
            let _g = lock();
            st().find(ptr as usize).map(|e| e.state).unwrap_or(0)
        };
        if known == 0 && !tracking() {
            return System.realloc(ptr, layout, new_size);
        }
        // tracked (or becoming tracked): alloc + copy + dealloc so every check above applies
        let new_layout = Layout::from_size_align_unchecked(new_size, layout.align());
        let np = self.alloc(new_layout);
        if !np.is_null() {
            std::ptr::copy_nonoverlapping(ptr, np, layout.size().min(new_size));
            self.dealloc(ptr, layout);
        }
        np
    }
}

// ------------------------------------------------------------------------------------------
// control surface used by the engines

/// Switch the shadow allocator on (only honoured in native, non-sanitizer modes).
static FILL: std::sync::atomic::AtomicU8 = std::sync::atomic::AtomicU8::new(0);
/// What fresh tracked blocks look like before the library writes them: 0 = 0xA5 bytes, 1 = words of value 1, 2 = zeroes.
pub fn set_fill(mode: u8) {
    FILL.store(mode, Relaxed);
}

pub fn enable(on: bool) {
    MODE.store(if on { 1 } else { 0 }, Relaxed);
}

pub fn active() -> bool {
    MODE.load(Relaxed) == 1
}

/// Run `f` with this thread's allocations tracked.
pub fn tracked<T>(f: impl FnOnce() -> T) -> T {
    struct Restore;
    impl Drop for Restore {
        fn drop(&mut self) {
            let _ = DEPTH.try_with(|d| d.set(d.get() - 1));
        }
    }
    DEPTH.with(|d| d.set(d.get() + 1));
    let _r = Restore;
    f()
}

/// Run `f` with tracking suspended on this thread (harness bookkeeping).
pub fn untracked<T>(f: impl FnOnce() -> T) -> T {
    struct Restore(u32);
    impl Drop for Restore {
        fn drop(&mut self) {
            let _ = DEPTH.try_with(|d| d.set(self.0));
        }
    }
    let old = DEPTH.with(|d| d.replace(0));
    let _r = Restore(old);
    f()
}

/// Serial number of the next event; use with `events_since`.
pub fn mark() -> u64 {
    if !active() {
        return 0;
    }
    let _g = lock();
    unsafe { st().evn }
}

/// Events with serial >= `mark` (at most the ring capacity; `None` if the ring wrapped).
pub fn events_since(mark: u64) -> Option<Vec<Ev>> {
    if !active() {
        return Some(Vec::new());
    }
    // never allocate or free while holding the lock: size first, then copy
    let now = {
        let _g = lock();
        unsafe { st().evn }
    };
    if now - mark > EVCAP as u64 {
        return None;
    }
    let mut out: Vec<Ev> = untracked(|| Vec::with_capacity((now - mark) as usize));
    {
        let _g = lock();
        let s = unsafe { st() };
        if s.evn - mark > EVCAP as u64 {
            return None;
        }
        for n in mark..now {
            let ev = unsafe { *s.ev.add((n as usize) & (EVCAP - 1)) };
            out.push(ev); // within capacity: no allocation
        }
    }
    Some(out)
}

/// Layout a live tracked block was allocated with.
pub fn live_layout(addr: usize) -> Option<(usize, usize)> {
    if !active() {
        return None;
    }
    let _g = lock();
    unsafe {
        st().find(addr).and_then(|e| {
            if e.state == 1 {
                Some((e.size, e.align))
            } else {
                None
            }
        })
    }
}

/// 0 = not a block start known to the monitor, 1 = live block, 2 = freed (still quarantined) block.
pub fn state_at(addr: usize) -> u8 {
    if !active() {
        return 0;
    }
    let _g = lock();
    unsafe {
        match st().find(addr) {
            Some(e) if e.state == 1 => 1,
            Some(e) if e.state == 2 => 2,
            _ => 0,
        }
    }
}

/// The live tracked block containing `addr`, if any (linear scan; diagnostics / bounds checks).
pub fn block_containing(addr: usize) -> Option<(usize, usize, usize)> {
    if !active() {
        return None;
    }
    let _g = lock();
    let s = unsafe { st() };
    for i in 0..CAP {
        let e = unsafe { &*s.table.add(i) };
        if e.state == 1 && addr >= e.addr && addr < e.addr + e.size.max(1) {
            return Some((e.addr, e.size, e.align));
        }
    }
    None
}

pub fn live_count() -> usize {
    if !active() {
        return 0;
    }
    let _g = lock();
    unsafe { st().live }
}

/// Live tracked blocks (addr,size,align), for leak reports.
pub fn live_blocks() -> Vec<(usize, usize, usize)> {
    if !active() {
        return Vec::new();
    }
    let n = live_count();
    let mut v: Vec<(usize, usize, usize)> = untracked(|| Vec::with_capacity(n + 16));
    let _g = lock();
    let s = unsafe { st() };
    for i in 0..CAP {
        let e = unsafe { &*s.table.add(i) };
        if e.state == 1 && v.len() < v.capacity() {
            v.push((e.addr, e.size, e.align));
        }
    }
    v
}

/// Forget everything (between cases): verify + free the quarantine, clear the table.
/// Live blocks are simply forgotten (they were reported as leaks by the caller if relevant).
pub fn reset() {
    if !active() {
        return;
    }
    let _g = lock();
    let s = unsafe { st() };
    unsafe {
        while s.qlen > 0 {
            s.evict_one();
        }
        std::ptr::write_bytes(s.table, 0, CAP);
    }
    s.used = 0;
    s.live = 0;
    s.fail_in = 0;
}

/// Verify and release the quarantine now (so write-after-free findings surface).
pub fn flush_quarantine() {
    if !active() {
        return;
    }
    let _g = lock();
    let s = unsafe { st() };
    unsafe {
        while s.qlen > 0 {
            s.evict_one();
        }
    }
}

pub fn take_findings() -> Vec<Finding> {
    if !active() {
        return Vec::new();
    }
    let mut v: Vec<Finding> = untracked(|| Vec::with_capacity(FCAP));
    let _g = lock();
    let s = unsafe { st() };
    let n = s.nfind.min(FCAP);
    for f in s.findings[..n].iter().flatten() {
        v.push(*f);
    }
    s.nfind = 0;
    v
}

pub fn overflowed() -> bool {
    if !active() {
        return false;
    }
    let _g = lock();
    unsafe { st().overflow }
}

/// The `n`-th tracked allocation from now fails (returns null). 0 disarms.
pub fn fail_after(n: i64) {
    let _g = lock();
    unsafe { st().fail_in = n };
}

pub fn checked_frees() -> usize {
    TOTAL_CHECKED_FREES.load(Relaxed)
}
