//! M2: identity-tracked payloads.
//!
//! Every tracked value has an id and a magic word derived from it. A lock-free registry
//! (Relaxed atomics only, so it adds no happens-before edges) records unborn/live/dropped.
//! `Drop` does live -> dropped with a swap; anything else is recorded as a finding:
//! double drop, destructor on a never-constructed value, destructor on corrupt bytes.

use std::cell::Cell;
use std::cmp::Ordering as CmpOrd;
use std::fmt;
use std::hash::{Hash, Hasher};
use std::sync::atomic::{AtomicI64, AtomicU32, AtomicU64, AtomicU8, Ordering::Relaxed};
use std::sync::Mutex;

#[cfg(miri)]
pub const NIDS: usize = 1 << 14;
#[cfg(not(miri))]
pub const NIDS: usize = 1 << 20;

const K: u32 = 0x5EED_C0DE;

static STATE: [AtomicU8; NIDS] = [const { AtomicU8::new(0) }; NIDS];
static ORIGIN: [AtomicU32; NIDS] = [const { AtomicU32::new(0) }; NIDS];
static DROPPER: [AtomicU8; NIDS] = [const { AtomicU8::new(0) }; NIDS];
static NEXT: AtomicU32 = AtomicU32::new(1);
static LIVE: AtomicI64 = AtomicI64::new(0);
static MADE: AtomicU64 = AtomicU64::new(0);
static DROPPED: AtomicU64 = AtomicU64::new(0);
static BAD: AtomicU64 = AtomicU64::new(0);
static FINDINGS: Mutex<Vec<String>> = Mutex::new(Vec::new());

// zero-sized tracked type: only counters
pub static Z_MADE: AtomicU64 = AtomicU64::new(0);
pub static Z_DROPPED: AtomicU64 = AtomicU64::new(0);

thread_local! {
    static THREAD_IX: Cell<u8> = const { Cell::new(0) };
    /// countdown to an injected panic in `Clone::clone` (0 = off)
    static CLONE_PANIC: Cell<i64> = const { Cell::new(0) };
    static CLONES: Cell<u64> = const { Cell::new(0) };
    /// countdown to an injected panic in eq/cmp/hash/fmt (0 = off)
    static CB_PANIC: Cell<i64> = const { Cell::new(0) };
    static CB_CALLS: Cell<u64> = const { Cell::new(0) };
    /// countdown to an injected panic in the destructor of `TD` (0 = off)
    static DROP_PANIC: Cell<i64> = const { Cell::new(0) };
    static PROBE: Cell<Option<(fn(*const ()), *const ())>> = const { Cell::new(None) };
}

pub const UNBORN: u8 = 0;
pub const LIVE_S: u8 = 1;
pub const DEAD: u8 = 2;

fn finding(s: String) {
    BAD.fetch_add(1, Relaxed);
    let mut g = FINDINGS.lock().unwrap_or_else(|e| e.into_inner());
    if g.len() < 64 {
        crate::shadow::untracked(|| g.push(s));
    }
}

pub fn bad_count() -> u64 {
    BAD.load(Relaxed)
}

pub fn take_findings() -> Vec<String> {
    BAD.store(0, Relaxed);
    let mut g = FINDINGS.lock().unwrap_or_else(|e| e.into_inner());
    crate::shadow::untracked(|| std::mem::take(&mut *g))
}

pub fn set_thread_ix(ix: u8) {
    THREAD_IX.with(|t| t.set(ix));
}

pub fn thread_ix() -> u8 {
    THREAD_IX.with(|t| t.get())
}

fn fresh_id(origin: u32) -> u32 {
    let id = NEXT.fetch_add(1, Relaxed);
    let ix = id as usize % NIDS;
    let old = STATE[ix].swap(LIVE_S, Relaxed);
    if old == LIVE_S {
        // registry wrapped onto a value that is still alive: the run is too long for the table
        finding(format!("registry-wrap id={}", id));
    }
    ORIGIN[ix].store(origin, Relaxed);
    DROPPER[ix].store(0xFF, Relaxed);
    LIVE.fetch_add(1, Relaxed);
    MADE.fetch_add(1, Relaxed);
    id
}

pub fn state(id: u32) -> u8 {
    STATE[id as usize % NIDS].load(Relaxed)
}
pub fn origin(id: u32) -> u32 {
    ORIGIN[id as usize % NIDS].load(Relaxed)
}
pub fn dropper(id: u32) -> u8 {
    DROPPER[id as usize % NIDS].load(Relaxed)
}
/// Number of tracked values (with identity) alive now.
pub fn live() -> i64 {
    LIVE.load(Relaxed)
}
pub fn made() -> u64 {
    MADE.load(Relaxed)
}
pub fn dropped() -> u64 {
    DROPPED.load(Relaxed)
}
pub fn next_id() -> u32 {
    NEXT.load(Relaxed)
}
pub fn z_live() -> i64 {
    Z_MADE.load(Relaxed) as i64 - Z_DROPPED.load(Relaxed) as i64
}

/// Forget all identities in `[from, next)` (between cases).
pub fn reset_range(from: u32) {
    let to = NEXT.load(Relaxed);
    if (to - from) as usize >= NIDS {
        for s in STATE.iter() {
            s.store(0, Relaxed);
        }
    } else {
        for id in from..to {
            STATE[id as usize % NIDS].store(0, Relaxed);
        }
    }
    LIVE.store(0, Relaxed);
}

fn on_drop(id: u32, magic: u32, what: &str) {
    if magic != id ^ K {
        finding(format!(
            "destructor-on-corrupt-bytes type={} id={:#x} magic={:#x}",
            what, id, magic
        ));
        return;
    }
    let ix = id as usize % NIDS;
    let old = STATE[ix].swap(DEAD, Relaxed);
    match old {
        LIVE_S => {
            DROPPER[ix].store(thread_ix(), Relaxed);
            LIVE.fetch_sub(1, Relaxed);
            DROPPED.fetch_add(1, Relaxed);
        }
        DEAD => finding(format!("double-drop type={} id={}", what, id)),
        _ => finding(format!("destructor-on-unborn type={} id={}", what, id)),
    }
}

fn check_live(id: u32, magic: u32, what: &str) -> Result<(), String> {
    if magic != id ^ K {
        return Err(format!("corrupt {} id={:#x} magic={:#x}", what, id, magic));
    }
    match state(id) {
        LIVE_S => Ok(()),
        DEAD => Err(format!("read of destroyed {} id={}", what, id)),
        _ => Err(format!("read of never-constructed {} id={}", what, id)),
    }
}

// ---- callback control -------------------------------------------------------------------

pub fn clones() -> u64 {
    CLONES.with(|c| c.get())
}
/// The `n`-th `Clone::clone` of a tracked value from now panics (0 = never).
pub fn clone_panic_at(n: i64) {
    CLONE_PANIC.with(|c| c.set(n));
}
pub fn cb_calls() -> u64 {
    CB_CALLS.with(|c| c.get())
}
pub fn cb_panic_at(n: i64) {
    CB_PANIC.with(|c| c.set(n));
}
/// Install a probe run inside every eq/cmp/hash/fmt callback of tracked values.
pub fn set_probe(p: Option<(fn(*const ()), *const ())>) {
    PROBE.with(|c| c.set(p));
}

fn clone_tick() {
    CLONES.with(|c| c.set(c.get() + 1));
    let fire = CLONE_PANIC.with(|c| {
        let v = c.get();
        if v > 0 {
            c.set(v - 1);
            v == 1
        } else {
            false
        }
    });
    if fire {
        panic!("injected clone panic");
    }
}

fn cb_tick() {
    CB_CALLS.with(|c| c.set(c.get() + 1));
    if let Some((f, d)) = PROBE.with(|c| c.get()) {
        // do not re-enter
        PROBE.with(|c| c.set(None));
        f(d);
        PROBE.with(|c| c.set(Some((f, d))));
    }
    let fire = CB_PANIC.with(|c| {
        let v = c.get();
        if v > 0 {
            c.set(v - 1);
            v == 1
        } else {
            false
        }
    });
    if fire {
        panic!("injected callback panic");
    }
}

// ---- the payload trait ------------------------------------------------------------------

pub trait Pay:
    Sized + Clone + PartialEq + Eq + PartialOrd + Ord + Hash + fmt::Debug + 'static
{
    const NAME: &'static str;
    const HAS_ID: bool;
    fn make(tag: u64) -> Self;
    /// identity (0 when the shape carries none)
    fn id(&self) -> u32;
    fn check(&self) -> Result<(), String>;
    fn tag(&self) -> u64;
    fn set_tag(&mut self, t: u64);
}

macro_rules! tracked_type {
    ($name:ident, $s:literal, $($attr:meta),*) => {
        $(#[$attr])*
        pub struct $name {
            id: u32,
            magic: u32,
            tag: u64,
        }
        impl Pay for $name {
            const NAME: &'static str = $s;
            const HAS_ID: bool = true;
            fn make(tag: u64) -> Self {
                let id = fresh_id(0);
                $name { id, magic: id ^ K, tag }
            }
            fn id(&self) -> u32 { self.id }
            fn check(&self) -> Result<(), String> { check_live(self.id, self.magic, $s) }
            fn tag(&self) -> u64 { self.tag }
            fn set_tag(&mut self, t: u64) { self.tag = t; }
        }
        impl Drop for $name {
            fn drop(&mut self) { on_drop(self.id, self.magic, $s); }
        }
        impl Clone for $name {
            fn clone(&self) -> Self {
                clone_tick();
                if let Err(e) = check_live(self.id, self.magic, $s) {
                    finding(format!("clone-of-invalid-source: {}", e));
                }
                let id = fresh_id(self.id);
                $name { id, magic: id ^ K, tag: self.tag }
            }
        }
        impl PartialEq for $name {
            fn eq(&self, o: &Self) -> bool { cb_tick(); self.tag == o.tag }
        }
        impl Eq for $name {}
        impl PartialOrd for $name {
            fn partial_cmp(&self, o: &Self) -> Option<CmpOrd> { cb_tick(); Some(self.tag.cmp(&o.tag)) }
        }
        impl Ord for $name {
            fn cmp(&self, o: &Self) -> CmpOrd { cb_tick(); self.tag.cmp(&o.tag) }
        }
        impl Hash for $name {
            fn hash<H: Hasher>(&self, h: &mut H) { cb_tick(); self.tag.hash(h) }
        }
        impl fmt::Debug for $name {
            fn fmt(&self, f: &mut fmt::Formatter) -> fmt::Result { cb_tick(); write!(f, "T({})", self.tag) }
        }
        impl Default for $name {
            fn default() -> Self { <$name as Pay>::make(0) }
        }
        impl fmt::Display for $name {
            fn fmt(&self, f: &mut fmt::Formatter) -> fmt::Result { cb_tick(); write!(f, "t{}", self.tag) }
        }
    };
}

tracked_type!(T8, "T8", repr(C));
tracked_type!(T32, "T32", repr(C, align(32)));
tracked_type!(T64, "T64", repr(C, align(64)));
tracked_type!(Alt, "Alt", repr(C));

/// A tracked value that also owns heap memory, so leak / double-free tools see its destructor.
pub struct TB {
    core: T8,
    boxed: Box<u64>,
}
impl Pay for TB {
    const NAME: &'static str = "TB";
    const HAS_ID: bool = true;
    fn make(tag: u64) -> Self {
        TB {
            core: T8::make(tag),
            boxed: Box::new(tag ^ 0xABCD),
        }
    }
    fn id(&self) -> u32 {
        self.core.id
    }
    fn check(&self) -> Result<(), String> {
        self.core.check()?;
        if *self.boxed != self.core.tag ^ 0xABCD {
            return Err(format!("TB heap part mismatch id={}", self.core.id));
        }
        Ok(())
    }
    fn tag(&self) -> u64 {
        self.core.tag
    }
    fn set_tag(&mut self, t: u64) {
        self.core.tag = t;
        *self.boxed = t ^ 0xABCD;
    }
}
impl Clone for TB {
    fn clone(&self) -> Self {
        let core = self.core.clone();
        TB {
            boxed: Box::new(core.tag ^ 0xABCD),
            core,
        }
    }
}
impl PartialEq for TB {
    fn eq(&self, o: &Self) -> bool {
        self.core == o.core
    }
}
impl Eq for TB {}
impl PartialOrd for TB {
    fn partial_cmp(&self, o: &Self) -> Option<CmpOrd> {
        self.core.partial_cmp(&o.core)
    }
}
impl Ord for TB {
    fn cmp(&self, o: &Self) -> CmpOrd {
        self.core.cmp(&o.core)
    }
}
impl Hash for TB {
    fn hash<H: Hasher>(&self, h: &mut H) {
        self.core.hash(h)
    }
}
impl fmt::Debug for TB {
    fn fmt(&self, f: &mut fmt::Formatter) -> fmt::Result {
        fmt::Debug::fmt(&self.core, f)
    }
}

/// A tracked value with a heap buffer that is read and written non-atomically (race workloads).
pub struct TV {
    core: T8,
    buf: Vec<u64>,
}
impl TV {
    pub fn fill(&mut self, t: u64) {
        self.core.tag = t;
        for (i, b) in self.buf.iter_mut().enumerate() {
            *b = t.wrapping_add(i as u64);
        }
    }
}
impl Pay for TV {
    const NAME: &'static str = "TV";
    const HAS_ID: bool = true;
    fn make(tag: u64) -> Self {
        TV {
            core: T8::make(tag),
            buf: (0..6).map(|i| tag.wrapping_add(i)).collect(),
        }
    }
    fn id(&self) -> u32 {
        self.core.id
    }
    fn check(&self) -> Result<(), String> {
        self.core.check()?;
        for (i, b) in self.buf.iter().enumerate() {
            if *b != self.core.tag.wrapping_add(i as u64) {
                return Err(format!(
                    "TV buffer torn/stale: id={} tag={} buf[{}]={}",
                    self.core.id, self.core.tag, i, b
                ));
            }
        }
        Ok(())
    }
    fn tag(&self) -> u64 {
        self.core.tag
    }
    fn set_tag(&mut self, t: u64) {
        self.fill(t)
    }
}
impl Clone for TV {
    fn clone(&self) -> Self {
        let core = self.core.clone();
        TV {
            buf: self.buf.clone(),
            core,
        }
    }
}
impl PartialEq for TV {
    fn eq(&self, o: &Self) -> bool {
        self.core == o.core
    }
}
impl Eq for TV {}
impl PartialOrd for TV {
    fn partial_cmp(&self, o: &Self) -> Option<CmpOrd> {
        self.core.partial_cmp(&o.core)
    }
}
impl Ord for TV {
    fn cmp(&self, o: &Self) -> CmpOrd {
        self.core.cmp(&o.core)
    }
}
impl Hash for TV {
    fn hash<H: Hasher>(&self, h: &mut H) {
        self.core.hash(h)
    }
}
impl fmt::Debug for TV {
    fn fmt(&self, f: &mut fmt::Formatter) -> fmt::Result {
        fmt::Debug::fmt(&self.core, f)
    }
}

/// The `n`-th destructor of a `TD` from now panics (after recording the destruction). 0 = never.
pub fn drop_panic_at(n: i64) {
    DROP_PANIC.with(|c| c.set(n));
}

/// A tracked value whose destructor can be made to panic.
pub struct TD {
    core: T8,
}
impl TD {
    pub fn make(tag: u64) -> TD {
        TD { core: T8::make(tag) }
    }
    pub fn id(&self) -> u32 {
        self.core.id
    }
}
impl Drop for TD {
    fn drop(&mut self) {
        // `core` is dropped (and recorded) right after this body, also while unwinding
        let fire = DROP_PANIC.with(|c| {
            let v = c.get();
            if v > 0 {
                c.set(v - 1);
                v == 1
            } else {
                false
            }
        });
        if fire && !std::thread::panicking() {
            panic!("injected destructor panic");
        }
    }
}

/// A value with no drop glue whose `Clone` is observable (counted, fresh serial number); `N` words of padding
/// choose its size class (16 bytes, exactly 64, just above 64, large).
pub struct ND<const N: usize = 0> {
    pub serial: u64,
    pub tag: u64,
    pub pad: [u64; N],
}
static ND_SERIAL: AtomicU64 = AtomicU64::new(1);
impl<const N: usize> ND<N> {
    pub fn make(tag: u64) -> Self {
        ND {
            serial: ND_SERIAL.fetch_add(1, Relaxed),
            tag,
            pad: [tag ^ 0x5A5A; N],
        }
    }
    pub fn pad_ok(&self) -> bool {
        self.pad.iter().all(|w| *w == self.pad.first().copied().unwrap_or(0))
    }
}
impl<const N: usize> Clone for ND<N> {
    fn clone(&self) -> Self {
        clone_tick();
        ND {
            serial: ND_SERIAL.fetch_add(1, Relaxed),
            tag: self.tag,
            pad: self.pad,
        }
    }
}

/// Byte-aligned tracked value (align 1, size 9).
#[repr(C)]
pub struct T1 {
    b: [u8; 9],
}
impl T1 {
    fn idm(&self) -> (u32, u32) {
        (
            u32::from_le_bytes([self.b[0], self.b[1], self.b[2], self.b[3]]),
            u32::from_le_bytes([self.b[4], self.b[5], self.b[6], self.b[7]]),
        )
    }
    fn build(id: u32, tag: u64) -> T1 {
        let mut b = [0u8; 9];
        b[..4].copy_from_slice(&id.to_le_bytes());
        b[4..8].copy_from_slice(&(id ^ K).to_le_bytes());
        b[8] = tag as u8;
        T1 { b }
    }
}
impl Pay for T1 {
    const NAME: &'static str = "T1";
    const HAS_ID: bool = true;
    fn make(tag: u64) -> Self {
        T1::build(fresh_id(0), tag)
    }
    fn id(&self) -> u32 {
        self.idm().0
    }
    fn check(&self) -> Result<(), String> {
        let (i, m) = self.idm();
        check_live(i, m, "T1")
    }
    fn tag(&self) -> u64 {
        self.b[8] as u64
    }
    fn set_tag(&mut self, t: u64) {
        self.b[8] = t as u8;
    }
}
impl Drop for T1 {
    fn drop(&mut self) {
        let (i, m) = self.idm();
        on_drop(i, m, "T1");
    }
}
impl Clone for T1 {
    fn clone(&self) -> Self {
        clone_tick();
        if let Err(e) = self.check() {
            finding(format!("clone-of-invalid-source: {}", e));
        }
        T1::build(fresh_id(self.id()), self.tag())
    }
}
impl PartialEq for T1 {
    fn eq(&self, o: &Self) -> bool {
        cb_tick();
        self.b[8] == o.b[8]
    }
}
impl Eq for T1 {}
impl PartialOrd for T1 {
    fn partial_cmp(&self, o: &Self) -> Option<CmpOrd> {
        cb_tick();
        Some(self.b[8].cmp(&o.b[8]))
    }
}
impl Ord for T1 {
    fn cmp(&self, o: &Self) -> CmpOrd {
        cb_tick();
        self.b[8].cmp(&o.b[8])
    }
}
impl Hash for T1 {
    fn hash<H: Hasher>(&self, h: &mut H) {
        cb_tick();
        (self.b[8] as u64).hash(h)
    }
}
impl fmt::Debug for T1 {
    fn fmt(&self, f: &mut fmt::Formatter) -> fmt::Result {
        cb_tick();
        write!(f, "T({})", self.b[8])
    }
}

/// Zero-sized type with a destructor: only construct/drop counters.
pub struct Z;
impl Pay for Z {
    const NAME: &'static str = "Z";
    const HAS_ID: bool = false;
    fn make(_tag: u64) -> Self {
        Z_MADE.fetch_add(1, Relaxed);
        Z
    }
    fn id(&self) -> u32 {
        0
    }
    fn check(&self) -> Result<(), String> {
        Ok(())
    }
    fn tag(&self) -> u64 {
        0
    }
    fn set_tag(&mut self, _t: u64) {}
}
impl Drop for Z {
    fn drop(&mut self) {
        let d = Z_DROPPED.fetch_add(1, Relaxed) + 1;
        if d > Z_MADE.load(Relaxed) {
            finding("zst-dropped-more-than-made".to_string());
        }
    }
}
impl Clone for Z {
    fn clone(&self) -> Self {
        clone_tick();
        Z_MADE.fetch_add(1, Relaxed);
        Z
    }
}
impl PartialEq for Z {
    fn eq(&self, _o: &Self) -> bool {
        cb_tick();
        true
    }
}
impl Eq for Z {}
impl PartialOrd for Z {
    fn partial_cmp(&self, _o: &Self) -> Option<CmpOrd> {
        cb_tick();
        Some(CmpOrd::Equal)
    }
}
impl Ord for Z {
    fn cmp(&self, _o: &Self) -> CmpOrd {
        cb_tick();
        CmpOrd::Equal
    }
}
impl Hash for Z {
    fn hash<H: Hasher>(&self, h: &mut H) {
        cb_tick();
        0u64.hash(h)
    }
}
impl fmt::Debug for Z {
    fn fmt(&self, f: &mut fmt::Formatter) -> fmt::Result {
        cb_tick();
        write!(f, "T(0)")
    }
}

impl Default for Z {
    fn default() -> Self {
        <Z as Pay>::make(0)
    }
}
impl Default for TB {
    fn default() -> Self {
        <TB as Pay>::make(0)
    }
}

/// Over-aligned zero-sized type with a destructor.
#[repr(align(16))]
pub struct Z16;
impl Pay for Z16 {
    const NAME: &'static str = "Z16";
    const HAS_ID: bool = false;
    fn make(_tag: u64) -> Self {
        Z_MADE.fetch_add(1, Relaxed);
        Z16
    }
    fn id(&self) -> u32 {
        0
    }
    fn check(&self) -> Result<(), String> {
        Ok(())
    }
    fn tag(&self) -> u64 {
        0
    }
    fn set_tag(&mut self, _t: u64) {}
}
impl Drop for Z16 {
    fn drop(&mut self) {
        let d = Z_DROPPED.fetch_add(1, Relaxed) + 1;
        if d > Z_MADE.load(Relaxed) {
            finding("zst-dropped-more-than-made".to_string());
        }
    }
}
impl Clone for Z16 {
    fn clone(&self) -> Self {
        clone_tick();
        Z_MADE.fetch_add(1, Relaxed);
        Z16
    }
}
impl PartialEq for Z16 {
    fn eq(&self, _o: &Self) -> bool {
        cb_tick();
        true
    }
}
impl Eq for Z16 {}
impl PartialOrd for Z16 {
    fn partial_cmp(&self, _o: &Self) -> Option<CmpOrd> {
        cb_tick();
        Some(CmpOrd::Equal)
    }
}
impl Ord for Z16 {
    fn cmp(&self, _o: &Self) -> CmpOrd {
        cb_tick();
        CmpOrd::Equal
    }
}
impl Hash for Z16 {
    fn hash<H: Hasher>(&self, h: &mut H) {
        cb_tick();
        0u64.hash(h)
    }
}
impl fmt::Debug for Z16 {
    fn fmt(&self, f: &mut fmt::Formatter) -> fmt::Result {
        cb_tick();
        write!(f, "T(0)")
    }
}

/// Object-safe view used for `Arc<dyn Tr>`.
pub trait Tr: Send + Sync {
    fn tr_id(&self) -> u32;
    fn tr_tag(&self) -> u64;
    fn tr_check(&self) -> Result<(), String>;
}
impl<P: Pay + Send + Sync> Tr for P {
    fn tr_id(&self) -> u32 {
        self.id()
    }
    fn tr_tag(&self) -> u64 {
        self.tag()
    }
    fn tr_check(&self) -> Result<(), String> {
        self.check()
    }
}
