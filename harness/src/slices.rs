//! hist engine, world W3: histories over slice payloads — `Arc<[P]>`, `Arc<HeaderSlice<(),[P]>>`
//! (header erasure both ways), raw `*const [P]` (from_raw_slice / from_raw), `UniqueArc<[P]>` —
//! with the live [C01], count [C04] and uniq [C03] oracles of the other worlds.

use crate::ensure;
use crate::hist::{soft_push, Stats};
use crate::shadow;
use crate::tk::{self, Pay};
use crate::util::*;
use std::mem::MaybeUninit;
use triomphe::{Arc, HeaderSlice, UniqueArc};

pub enum H3<P: Pay> {
    Sl(Arc<[P]>),
    Hs(Arc<HeaderSlice<(), [P]>>),
    Raw(*const [P]),
    Uniq(UniqueArc<[P]>),
}

impl<P: Pay> H3<P> {
    fn kind(&self) -> &'static str {
        match self {
            H3::Sl(_) => "slice",
            H3::Hs(_) => "hslice",
            H3::Raw(_) => "rawslice",
            H3::Uniq(_) => "uslice",
        }
    }
}

struct View3 {
    elems: Vec<(u32, u64)>,
    addr: usize,
    heap: Option<usize>,
    counts: Vec<(&'static str, usize)>,
}

fn read<P: Pay>(s: &[P], via: &str) -> R<Vec<(u32, u64)>> {
    let mut v = Vec::with_capacity(s.len());
    for (k, e) in s.iter().enumerate() {
        if let Err(m) = e.check() {
            return viol("C01", "live", format!("element {} read through {}: {}", k, via, m));
        }
        v.push((e.id(), e.tag()));
    }
    Ok(v)
}

fn view3<P: Pay>(h: &H3<P>) -> R<View3> {
    let mut counts = Vec::new();
    let (elems, addr, heap);
    match h {
        H3::Sl(a) => {
            elems = read(&a[..], "Arc<[T]>")?;
            addr = (**a).as_ptr() as usize;
            heap = Some(a.heap_ptr() as usize);
            ensure!(Arc::as_ptr(a) as *const P as usize == addr, "C11", "ptr", "Arc<[T]>::as_ptr != Deref address");
            counts.push(("slice:Arc::count", Arc::count(a)));
            counts.push(("slice:Arc::strong_count", Arc::strong_count(a)));
            counts.push(("uniq:Arc<[T]>::is_unique", a.is_unique() as usize));
        }
        H3::Hs(a) => {
            elems = read(&a.slice, "Arc<HeaderSlice<(),[T]>>")?;
            addr = a.slice.as_ptr() as usize;
            heap = Some(a.heap_ptr() as usize);
            counts.push(("hslice:Arc::count", Arc::count(a)));
        }
        H3::Raw(p) => {
            let s: &[P] = unsafe { &**p };
            elems = read(s, "*const [T]")?;
            addr = s.as_ptr() as usize;
            heap = None;
        }
        H3::Uniq(u) => {
            elems = read(&u[..], "UniqueArc<[T]>")?;
            addr = (**u).as_ptr() as usize;
            heap = None;
        }
    }
    Ok(View3 {
        elems,
        addr,
        heap,
        counts,
    })
}

struct Slot<P: Pay> {
    h: H3<P>,
    a: usize,
}
struct AllocM {
    elems: Vec<(u32, u64)>,
    block: usize,
    addr: usize,
    live: bool,
}

struct W<'s, P: Pay> {
    slots: Vec<Option<Slot<P>>>,
    allocs: Vec<AllocM>,
    rng: Rng,
    trace: Vec<String>,
    st: &'s mut Stats,
    next_tag: u64,
    light: bool,
    last_a: usize,
    z0: i64,
    soft: Vec<Viol>,
}

struct Mk<P: Pay> {
    left: usize,
    tag: u64,
    exact: bool,
    _p: std::marker::PhantomData<P>,
}
impl<P: Pay> Iterator for Mk<P> {
    type Item = P;
    fn next(&mut self) -> Option<P> {
        if self.left == 0 {
            None
        } else {
            self.left -= 1;
            self.tag = (self.tag + 1) % 200;
            Some(P::make(self.tag + 1))
        }
    }
    fn size_hint(&self) -> (usize, Option<usize>) {
        if self.exact {
            (self.left, Some(self.left))
        } else {
            (0, None)
        }
    }
}

impl<'s, P: Pay + Send + Sync> W<'s, P> {
    fn owners(&self, a: usize) -> usize {
        self.slots.iter().flatten().filter(|s| s.a == a).count()
    }
    fn used(&self) -> Vec<usize> {
        (0..self.slots.len()).filter(|i| self.slots[*i].is_some()).collect()
    }
    fn free(&mut self) -> Option<usize> {
        let f: Vec<usize> = (0..self.slots.len()).filter(|i| self.slots[*i].is_none()).collect();
        if f.is_empty() {
            None
        } else {
            Some(f[self.rng.below(f.len())])
        }
    }
    fn tag(&mut self) -> u64 {
        self.next_tag = (self.next_tag + 11) % 200;
        self.next_tag + 1
    }

    fn make(&mut self) -> (Arc<[P]>, &'static str) {
        let zst = std::mem::size_of::<P>() == 0;
        let n = [0usize, 1, 2, 3, 5, 8, 13][self.rng.below(7)];
        let t = self.tag();
        let r = if zst { [0usize, 3, 4][self.rng.below(3)] } else { self.rng.below(6) };
        let mk = |exact| Mk::<P> {
            left: n,
            tag: t,
            exact,
            _p: std::marker::PhantomData,
        };
        shadow::tracked(|| match r {
            0 => (Arc::from(mk(true).collect::<Vec<P>>()), "From<Vec<T>>"),
            1 => (mk(true).collect::<Arc<[P]>>(), "FromIterator(exact)"),
            2 => (Arc::from_header_and_iter((), IterEsi(mk(true))).into(), "from_header_and_iter(())+erase"),
            3 => (mk(false).collect::<Arc<[P]>>(), "FromIterator(inexact)"),
            4 => {
                let mut a: Arc<[MaybeUninit<P>]> = Arc::new_uninit_slice(n);
                for (s, v) in Arc::get_mut(&mut a).unwrap().iter_mut().zip(mk(true)) {
                    s.write(v);
                }
                (unsafe { a.assume_init() }, "new_uninit_slice+assume_init")
            }
            _ => {
                let mut u: UniqueArc<[MaybeUninit<P>]> = UniqueArc::new_uninit_slice(n);
                for (s, v) in u.iter_mut().zip(mk(true)) {
                    s.write(v);
                }
                (unsafe { UniqueArc::assume_init_slice(u) }.shareable(), "UniqueArc::new_uninit_slice+assume_init_slice")
            }
        })
    }

    fn adopt(&mut self, slot: usize, h: H3<P>, how: &str) -> R {
        let v = view3(&h)?;
        let block = v.heap.unwrap_or(0);
        if shadow::active() && block != 0 {
            ensure!(shadow::live_layout(block).is_some(), "C01,C11", "live", "heap_ptr of a new slice allocation is not a live block");
        }
        self.allocs.push(AllocM {
            elems: v.elems,
            block,
            addr: v.addr,
            live: true,
        });
        let a = self.allocs.len() - 1;
        self.last_a = a;
        self.slots[slot] = Some(Slot { h, a });
        self.st.counts.bump(&format!("slices.create:{}", how));
        Ok(())
    }

    fn expect_dead(&mut self, a: usize, by: &str) -> R {
        let m = &mut self.allocs[a];
        m.live = false;
        if P::HAS_ID {
            for (id, _) in &m.elems {
                ensure!(tk::state(*id) == tk::DEAD, "C01", "live", "slice element id={} not destroyed at last release ({})", id, by);
            }
        }
        if shadow::active() && m.block != 0 {
            ensure!(shadow::live_layout(m.block).is_none(), "C01", "live", "slice block {:#x} not returned at last release ({})", m.block, by);
        }
        self.st.counts.bump(&format!("slices.final_release_by.{}", by));
        Ok(())
    }

    fn verify(&mut self, ctx: &str) -> R {
        set_op("C01,C04|reading slice handles");
        for i in 0..self.slots.len() {
            let (a, kind, v) = match &self.slots[i] {
                None => continue,
                Some(s) if self.light && s.a != self.last_a => continue,
                Some(s) => (s.a, s.h.kind(), view3(&s.h)?),
            };
            let owners = self.owners(a);
            let m = &self.allocs[a];
            ensure!(
                v.elems == m.elems,
                "C01",
                "live",
                "after {}: {} handle sees {:?}, the model holds {:?}",
                ctx,
                kind,
                v.elems,
                m.elems
            );
            ensure!(v.addr == m.addr || m.elems.is_empty(), "C11,C01", "live", "after {}: {} handle exposes the elements at another address", ctx, kind);
            if let Some(h) = v.heap {
                ensure!(h == m.block, "C11,C01", "live", "after {}: {} handle's heap_ptr moved", ctx, kind);
            }
            for (name, c) in &v.counts {
                if let Some(api) = name.strip_prefix("uniq:") {
                    // a non-mutating uniqueness verdict, taken at every step: it must agree with the model's owner count
                    self.st.counts.bump("uniq_obs.passive");
                    ensure!(
                        (*c == 1) == (owners == 1),
                        "C03,C04",
                        "uniq",
                        "after {}: {} through a {} handle says unique={} but {} owning handles exist",
                        ctx,
                        api,
                        kind,
                        *c == 1,
                        owners
                    );
                    continue;
                }
                self.st.counts.bump(if self.light { "count_obs.any" } else { "count_obs.slice-world" });
                if *c != owners {
                    let msg = format!("after {}: {} through a {} handle reports {} but {} owning handles exist", ctx, name, kind, c, owners);
                    soft_push(&mut self.soft, "C04", "count", msg);
                }
            }
        }
        let expect: i64 = self.allocs.iter().filter(|m| m.live).map(|m| m.elems.len() as i64).sum();
        if P::HAS_ID {
            ensure!(tk::live() == expect, "C01", "live", "after {}: {} tracked elements alive, model expects {}", ctx, tk::live(), expect);
        } else {
            ensure!(tk::z_live() - self.z0 == expect, "C01", "live", "after {}: {} zero-sized elements alive, model expects {}", ctx, tk::z_live() - self.z0, expect);
        }
        if shadow::active() {
            for m in self.allocs.iter().filter(|m| m.live && m.block != 0) {
                ensure!(shadow::live_layout(m.block).is_some(), "C01", "live", "after {}: block of a live slice allocation was returned", ctx);
            }
        }
        let f = tk::take_findings();
        if !f.is_empty() {
            return viol("C01", "live", format!("after {}: {}", ctx, f.join("; ")));
        }
        if let Some(x) = shadow::take_findings().first() {
            let props = if x.kind == "dealloc-layout-mismatch" { "C05,C01" } else { "C01" };
            return viol(props, "alloc", format!("after {}: allocator monitor: {:?}", ctx, x));
        }
        Ok(())
    }

    fn step(&mut self) -> R {
        set_op("C01|slice-world operation");
        let used = self.used();
        let free = self.free();
        let roll = self.rng.below(100);
        if used.is_empty() || (roll < 12 && free.is_some()) {
            let s = free.unwrap();
            let (a, how) = self.make();
            self.trace.push(format!("s{} = {}", s, how));
            self.adopt(s, H3::Sl(a), how)?;
            return self.verify("create");
        }
        let i = *self.rng.pick(&used);
        let a = self.slots[i].as_ref().unwrap().a;
        self.last_a = a;
        let kind = self.slots[i].as_ref().unwrap().h.kind();
        let owners = self.owners(a);
        if roll < 32 {
            if let Some(s) = free {
                let h = shadow::tracked(|| match &self.slots[i].as_ref().unwrap().h {
                    H3::Sl(x) => Some(H3::Sl(x.clone())),
                    H3::Hs(x) => Some(H3::Hs(x.clone())),
                    H3::Raw(p) => {
                        // borrow the raw pointer as an Arc without taking it back
                        let t = std::mem::ManuallyDrop::new(unsafe { Arc::from_raw_slice(*p) });
                        Some(H3::Sl((*t).clone()))
                    }
                    H3::Uniq(_) => None,
                });
                if let Some(h) = h {
                    self.trace.push(format!("s{} = s{}.clone ({})", s, i, kind));
                    self.st.counts.bump(&format!("slices.edge:{}.clone", kind));
                    self.slots[s] = Some(Slot { h, a });
                    return self.verify("clone");
                }
            }
        }
        if roll < 60 {
            let slot = self.slots[i].take().unwrap();
            let r = self.rng.below(4);
            let (h, how): (H3<P>, &'static str) = shadow::tracked(|| match slot.h {
                H3::Sl(x) => match r {
                    0 => (H3::Hs(x.into()), "slice->hslice"),
                    1 | 2 => (H3::Raw(Arc::into_raw(x)), "slice->raw"),
                    _ => match Arc::try_unique(x) {
                        Ok(u) => (H3::Uniq(u), "slice->uslice(try_unique)"),
                        Err(x) => (H3::Sl(x), "slice.try_unique-declined"),
                    },
                },
                H3::Hs(x) => (H3::Sl(x.into()), "hslice->slice"),
                H3::Raw(p) => {
                    if r % 2 == 0 {
                        (H3::Sl(unsafe { Arc::from_raw_slice(p) }), "raw->slice(from_raw_slice)")
                    } else {
                        (H3::Sl(unsafe { Arc::from_raw(p) }), "raw->slice(from_raw)")
                    }
                }
                H3::Uniq(u) => (H3::Sl(u.shareable()), "uslice->slice"),
            });
            if how == "slice->uslice(try_unique)" {
                ensure!(owners == 1, "C03,C09", "uniq", "try_unique on Arc<[T]> granted with {} owners", owners);
            }
            if how == "slice.try_unique-declined" {
                ensure!(owners != 1, "C03,C09", "uniq", "try_unique on Arc<[T]> declined for a sole owner");
            }
            self.trace.push(format!("s{} : {}", i, how));
            self.st.counts.bump(&format!("slices.edge:{}", how));
            self.slots[i] = Some(Slot { h, a });
            return self.verify(how);
        }
        if roll < 76 {
            let slot = self.slots[i].take().unwrap();
            self.trace.push(format!("drop s{} ({})", i, kind));
            shadow::tracked(|| match slot.h {
                H3::Raw(p) => drop(unsafe { Arc::from_raw_slice(p) }),
                other => drop(other),
            });
            if owners == 1 {
                self.expect_dead(a, kind)?;
            }
            return self.verify("drop");
        }
        // uniqueness-gated write
        let t = self.tag();
        let mut slot = self.slots[i].take().unwrap();
        match &mut slot.h {
            H3::Sl(x) => {
                let g = Arc::get_mut(x).map(|m| m.last_mut().map(|e| e.set_tag(t))).is_some();
                let g2 = x.is_unique();
                self.st.counts.bump(if g { "uniq.slice.get_mut.grant" } else { "uniq.slice.get_mut.decline" });
                ensure!(g == (owners == 1) && g2 == g, "C03", "uniq", "get_mut/is_unique on Arc<[T]> = {}/{} with {} owners", g, g2, owners);
                if g && P::HAS_ID {
                    if let Some(e) = self.allocs[a].elems.last_mut() {
                        e.1 = t;
                    }
                }
            }
            H3::Uniq(u) => {
                if let Some(e) = u.first_mut() {
                    e.set_tag(t);
                    if P::HAS_ID {
                        self.allocs[a].elems[0].1 = t;
                    }
                }
                self.st.counts.bump("uniq.uslice.deref_mut");
            }
            _ => {}
        }
        self.slots[i] = Some(slot);
        self.verify("unique-op")
    }

    fn finish(&mut self) -> R {
        loop {
            let used = self.used();
            if used.is_empty() {
                break;
            }
            let i = *self.rng.pick(&used);
            let slot = self.slots[i].take().unwrap();
            let a = slot.a;
            let kind = slot.h.kind();
            let owners = self.owners(a) + 1;
            shadow::tracked(|| match slot.h {
                H3::Raw(p) => drop(unsafe { Arc::from_raw_slice(p) }),
                other => drop(other),
            });
            if owners == 1 {
                self.expect_dead(a, kind)?;
            }
            self.last_a = a;
            self.verify("final-drop")?;
        }
        if shadow::active() {
            shadow::flush_quarantine();
            if let Some(x) = shadow::take_findings().first() {
                return viol("C01", "alloc", format!("at quiescence: allocator monitor: {:?}", x));
            }
            let lb = shadow::live_blocks();
            ensure!(lb.is_empty(), "C01", "live", "{} blocks never returned: {:x?}", lb.len(), &lb[..lb.len().min(4)]);
        }
        Ok(())
    }
}

/// Adapter: an iterator with an exact hint presented as ExactSizeIterator.
struct IterEsi<P: Pay>(Mk<P>);
impl<P: Pay> Iterator for IterEsi<P> {
    type Item = P;
    fn next(&mut self) -> Option<P> {
        self.0.next()
    }
    fn size_hint(&self) -> (usize, Option<usize>) {
        self.0.size_hint()
    }
}
impl<P: Pay> ExactSizeIterator for IterEsi<P> {}

pub fn run_one<P: Pay + Send + Sync>(seed: u64, nops: usize, light: bool, st: &mut Stats) -> Result<(), (Vec<Viol>, Vec<String>)> {
    let id0 = tk::next_id();
    shadow::reset();
    let _ = tk::take_findings();
    let mut w: W<P> = W {
        slots: (0..8).map(|_| None).collect(),
        allocs: Vec::new(),
        rng: Rng::new(seed ^ 0x5117),
        trace: Vec::new(),
        st,
        next_tag: seed % 100,
        light,
        last_a: usize::MAX,
        z0: tk::z_live(),
        soft: Vec::new(),
    };
    let mut res = Ok(());
    for _ in 0..nops {
        if let Err(v) = w.step() {
            res = Err(v);
            break;
        }
    }
    if res.is_ok() {
        res = w.finish();
    }
    w.st.counts.bump("slices.histories");
    w.st.counts.add("slices.ops", w.trace.len() as u64);
    let mut viols = std::mem::take(&mut w.soft);
    let out = match res {
        Ok(()) if viols.is_empty() => Ok(()),
        Ok(()) => Err((viols, std::mem::take(&mut w.trace))),
        Err(v) => {
            let t = std::mem::take(&mut w.trace);
            for s in w.slots.drain(..) {
                std::mem::forget(s);
            }
            viols.push(v);
            Err((viols, t))
        }
    };
    drop(w);
    tk::reset_range(id0);
    let _ = tk::take_findings();
    let _ = shadow::take_findings();
    out
}

// ---------------------------------------------------------------------------------------------
// str payloads: Arc<str>, Arc<HeaderSlice<(), str>>, Arc<HeaderSlice<u32, str>>, raw *const str.
// No identity can be attached to a str, so the oracles are contents, addresses, counts and the
// allocator's view (block live while owned, returned exactly when the last owner goes).

enum HS {
    S(Arc<str>),
    E(Arc<HeaderSlice<(), str>>),
    H(Arc<HeaderSlice<u32, str>>),
    Raw(*const str),
}

impl HS {
    fn kind(&self) -> &'static str {
        match self {
            HS::S(_) => "str",
            HS::E(_) => "hstr",
            HS::H(_) => "hdrstr",
            HS::Raw(_) => "rawstr",
        }
    }
    fn text(&self) -> &str {
        match self {
            HS::S(a) => a,
            HS::E(a) => &a.slice,
            HS::H(a) => &a.slice,
            HS::Raw(p) => unsafe { &**p },
        }
    }
    fn count(&self) -> Option<usize> {
        match self {
            HS::S(a) => Some(Arc::count(a)),
            HS::E(a) => Some(Arc::count(a)),
            HS::H(a) => Some(Arc::strong_count(a)),
            HS::Raw(_) => None,
        }
    }
    fn heap(&self) -> Option<usize> {
        match self {
            HS::S(a) => Some(a.heap_ptr() as usize),
            HS::E(a) => Some(a.heap_ptr() as usize),
            HS::H(a) => Some(a.heap_ptr() as usize),
            HS::Raw(_) => None,
        }
    }
}

pub fn run_str(seed: u64, nops: usize, st: &mut Stats) -> Result<(), (Vec<Viol>, Vec<String>)> {
    shadow::reset();
    let mut rng = Rng::new(seed ^ 0x57e);
    let mut slots: Vec<Option<(HS, usize)>> = (0..8).map(|_| None).collect();
    let mut allocs: Vec<(String, usize, bool)> = Vec::new(); // text, block, live
    let mut trace: Vec<String> = Vec::new();
    let mut soft: Vec<Viol> = Vec::new();
    let texts = ["", "a", "héllo", "日本語テキスト", "plain ascii text of some length", "😀😀"];
    let mut body = || -> R {
        for step in 0..nops + 40 {
            set_op("C01|str-world operation");
            let closing = step >= nops;
            let used: Vec<usize> = (0..slots.len()).filter(|i| slots[*i].is_some()).collect();
            let free: Vec<usize> = (0..slots.len()).filter(|i| slots[*i].is_none()).collect();
            if closing && used.is_empty() {
                break;
            }
            let roll = if closing { 70 } else { rng.below(100) };
            if !closing && (used.is_empty() || (roll < 15 && !free.is_empty())) {
                let t = texts[rng.below(texts.len())];
                let r = rng.below(4);
                let h = shadow::tracked(|| match r {
                    0 => HS::S(Arc::from(t)),
                    1 => HS::S(Arc::from(String::from(t))),
                    2 => HS::S(Arc::from_header_and_str((), t).into()),
                    _ => HS::H(Arc::from_header_and_str(7u32, t)),
                });
                let block = h.heap().unwrap();
                ensure!(!shadow::active() || shadow::live_layout(block).is_some(), "C01,C11", "live", "heap_ptr of a new str allocation is not a live block");
                allocs.push((t.to_string(), block, true));
                let s = free[rng.below(free.len())];
                trace.push(format!("s{} = str ctor {}", s, r));
                slots[s] = Some((h, allocs.len() - 1));
                st.counts.bump("slices.str.create");
            } else {
                let i = used[rng.below(used.len())];
                let a = slots[i].as_ref().unwrap().1;
                let owners = slots.iter().flatten().filter(|s| s.1 == a).count();
                if roll < 35 && !free.is_empty() {
                    let h = shadow::tracked(|| match &slots[i].as_ref().unwrap().0 {
                        HS::S(x) => HS::S(x.clone()),
                        HS::E(x) => HS::E(x.clone()),
                        HS::H(x) => HS::H(x.clone()),
                        HS::Raw(p) => {
                            let t = std::mem::ManuallyDrop::new(unsafe { Arc::from_raw(*p) });
                            HS::S((*t).clone())
                        }
                    });
                    let s = free[rng.below(free.len())];
                    trace.push(format!("s{} = s{}.clone", s, i));
                    slots[s] = Some((h, a));
                    st.counts.bump("slices.str.clone");
                } else if roll < 65 {
                    let (h, _) = slots[i].take().unwrap();
                    let h = shadow::tracked(|| match h {
                        HS::S(x) => {
                            if rng.below(2) == 0 {
                                HS::E(x.into())
                            } else {
                                HS::Raw(Arc::into_raw(x))
                            }
                        }
                        HS::E(x) => HS::S(x.into()),
                        HS::H(x) => HS::H(x),
                        HS::Raw(p) => HS::S(unsafe { Arc::from_raw(p) }),
                    });
                    trace.push(format!("s{} -> {}", i, h.kind()));
                    slots[i] = Some((h, a));
                    st.counts.bump("slices.str.convert");
                } else {
                    let (h, _) = slots[i].take().unwrap();
                    trace.push(format!("drop s{} ({})", i, h.kind()));
                    shadow::tracked(|| match h {
                        HS::Raw(p) => drop(unsafe { Arc::<str>::from_raw(p) }),
                        other => drop(other),
                    });
                    if owners == 1 {
                        allocs[a].2 = false;
                        if shadow::active() {
                            ensure!(shadow::live_layout(allocs[a].1).is_none(), "C01", "live", "str block not returned when its last owner was released");
                        }
                    }
                    st.counts.bump("slices.str.drop");
                }
            }
            // compare everything observable with the model
            for s in slots.iter().flatten() {
                let (h, a) = s;
                let owners = slots.iter().flatten().filter(|x| x.1 == *a).count();
                ensure!(h.text() == allocs[*a].0, "C01,C06", "live", "{} handle reads {:?}, the allocation holds {:?}", h.kind(), h.text(), allocs[*a].0);
                if let Some(c) = h.count() {
                    if c != owners {
                        soft_push(&mut soft, "C04", "count", format!("{} handle reports count {} with {} owners", h.kind(), c, owners));
                    }
                }
                if let Some(b) = h.heap() {
                    ensure!(b == allocs[*a].1, "C11,C01", "live", "{} handle's heap_ptr moved", h.kind());
                }
            }
            if shadow::active() {
                for (_, block, live) in &allocs {
                    if *live {
                        ensure!(shadow::live_layout(*block).is_some(), "C01", "live", "block of a live str allocation was returned");
                    }
                }
                if let Some(x) = shadow::take_findings().first() {
                    let props = if x.kind == "dealloc-layout-mismatch" { "C05,C01" } else { "C01" };
                    return viol(props, "alloc", format!("allocator monitor: {:?}", x));
                }
            }
        }
        if shadow::active() {
            shadow::flush_quarantine();
            let lb = shadow::live_blocks();
            ensure!(lb.is_empty(), "C01", "live", "{} str blocks never returned", lb.len());
        }
        Ok(())
    };
    let res = body();
    st.counts.bump("slices.str.histories");
    match res {
        Ok(()) if soft.is_empty() => Ok(()),
        Ok(()) => Err((soft, trace)),
        Err(v) => {
            for s in slots.drain(..) {
                std::mem::forget(s);
            }
            soft.push(v);
            Err((soft, trace))
        }
    }
}
