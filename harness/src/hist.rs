//! hist engine, world W1: random single-threaded histories over every handle kind that can refer
//! to a *sized* payload, with a sequential reference model compared after every step.
//!
//! Oracles (property tags in brackets):
//!   live  [C01]  every payload reachable from a live handle is alive and intact; a payload dies
//!                exactly in the step in which its last owning handle is released; its block is
//!                returned then and not before; nothing is left at the end.
//!   uniq  [C03]  uniqueness-gated APIs succeed iff the model has exactly one owner; a decline
//!                leaves the same handle, same allocation, same count.
//!   count [C04]  every count accessor equals the number of model owners after every step and
//!                inside borrow callbacks.
//!   cow   [C08]  make_mut / make_unique / OffsetArc::make_mut.
//!   unwrap[C09]  try_unwrap / try_unique / into_inner / unwrap_or_clone / TryFrom.

use crate::ensure;
use crate::shadow;
use crate::tk::{self, Alt, Pay, Tr};
use crate::util::*;
use std::convert::TryFrom;
use triomphe::{Arc, ArcBorrow, ArcUnion, ArcUnionBorrow, HeaderSlice, OffsetArc, UniqueArc};

#[cfg(feature = "full")]
use arc_swap::ArcSwapAny;

pub enum H<P: Pay> {
    Arc(Arc<P>),
    Off(OffsetArc<P>),
    U1(ArcUnion<P, Alt>),
    U2(ArcUnion<Alt, P>),
    UU(ArcUnion<P, P>, bool), // equal types; bool = built with from_second
    Uniq(UniqueArc<P>),
    Raw(*const P),
    Dyn(Arc<dyn Tr>),
    Hs(Arc<HeaderSlice<(), P>>),
    #[cfg(feature = "full")]
    Swap(ArcSwapAny<Arc<P>>),
    #[cfg(feature = "full")]
    UniqDyn(UniqueArc<dyn Tr>),
}

impl<P: Pay> H<P> {
    pub fn kind(&self) -> &'static str {
        match self {
            H::Arc(_) => "arc",
            H::Off(_) => "off",
            H::U1(_) => "u1",
            H::U2(_) => "u2",
            H::UU(_, _) => "uu",
            H::Uniq(_) => "uniq",
            H::Raw(_) => "raw",
            H::Dyn(_) => "dyn",
            H::Hs(_) => "hs",
            #[cfg(feature = "full")]
            H::Swap(_) => "swap",
            #[cfg(feature = "full")]
            H::UniqDyn(_) => "uniqdyn",
        }
    }
}

struct Slot<P: Pay> {
    h: H<P>,
    a: usize,
}

struct AllocM {
    id: u32,
    tag: u64,
    block: usize,
    data: usize,
    live: bool,
    sig: String,
}

pub struct View {
    pub id: u32,
    pub tag: u64,
    pub data: usize,
    pub heap: Option<usize>,
    pub counts: Vec<(&'static str, usize)>,
}

pub struct Stats {
    pub counts: Counts,
    pub sigs: std::collections::BTreeSet<u64>,
    pub nontrivial_sigs: std::collections::BTreeSet<u64>,
    pub ctx_sigs: std::collections::BTreeSet<u64>,
    pub sample: Vec<String>,
}

impl Stats {
    pub fn new() -> Stats {
        Stats {
            counts: Counts::default(),
            sigs: Default::default(),
            nontrivial_sigs: Default::default(),
            ctx_sigs: Default::default(),
            sample: Vec::new(),
        }
    }
}

struct W<'s, P: Pay + Send + Sync> {
    slots: Vec<Option<Slot<P>>>,
    allocs: Vec<AllocM>,
    loose: Vec<P>, // values moved out of an allocation and held by the harness
    loose_ids: Vec<u32>,
    rng: Rng,
    trace: Vec<String>,
    st: &'s mut Stats,
    next_tag: u64,
    light: bool,
    z0: i64,
    last_a: usize,
    soft: Vec<Viol>,
}

const NSLOTS: usize = 10;

pub fn view<P: Pay + Send + Sync>(h: &H<P>) -> R<View> {
    let mut counts: Vec<(&'static str, usize)> = Vec::new();
    let (id, tag, data, heap);
    macro_rules! rd {
        ($r:expr) => {{
            let r: &P = $r;
            if let Err(e) = r.check() {
                return viol("C01", "live", format!("read through {}: {}", h.kind(), e));
            }
            (r.id(), r.tag(), r as *const P as usize)
        }};
    }
    match h {
        H::Arc(a) => {
            let (i, t, d) = rd!(&**a);
            id = i;
            tag = t;
            data = d;
            heap = Some(a.heap_ptr() as usize);
            counts.push(("Arc::count", Arc::count(a)));
            counts.push(("Arc::strong_count", Arc::strong_count(a)));
            counts.push(("uniq:Arc::is_unique", a.is_unique() as usize));
            let b = a.borrow_arc();
            counts.push(("ArcBorrow::strong_count", ArcBorrow::strong_count(&b)));
            counts.push(("ArcBorrow::with_arc", b.with_arc(|x| Arc::count(x))));
            counts.push((
                "with_raw_offset_arc",
                a.with_raw_offset_arc(|o| OffsetArc::strong_count(o)),
            ));
            #[cfg(feature = "full")]
            {
                use unsize::CoerceUnsize;
                let bd: ArcBorrow<'_, dyn Tr> = b.unsize(unsize::Coercion!(to dyn Tr));
                let bits: (usize, usize) = unsafe { std::mem::transmute_copy(&bd) };
                ensure!(
                    bits.0 == data,
                    "C11",
                    "ptr",
                    "unsized ArcBorrow's data pointer {:#x} is not the value address {:#x}",
                    bits.0,
                    data
                );
            }
            let (i2, t2, d2) = rd!(b.get());
            ensure!(
                (i2, t2, d2) == (id, tag, data) && Arc::as_ptr(a) as usize == data,
                "C01,C11",
                "live",
                "ArcBorrow/as_ptr view differs from Deref view"
            );
        }
        H::Off(o) => {
            let (i, t, d) = rd!(&**o);
            id = i;
            tag = t;
            data = d;
            heap = Some(o.with_arc(|a| a.heap_ptr() as usize));
            counts.push(("OffsetArc::strong_count", OffsetArc::strong_count(o)));
            counts.push(("OffsetArc::with_arc", o.with_arc(|a| Arc::count(a))));
            counts.push((
                "uniq:OffsetArc::with_arc(is_unique)",
                o.with_arc(|a| a.is_unique()) as usize,
            ));
            counts.push((
                "OffsetArc::borrow_arc",
                ArcBorrow::strong_count(&o.borrow_arc()),
            ));
        }
        H::U1(u) => {
            ensure!(
                u.is_first() && !u.is_second(),
                "C12",
                "variant",
                "U1 not first"
            );
            match u.borrow() {
                ArcUnionBorrow::First(b) => {
                    let (i, t, d) = rd!(b.get());
                    id = i;
                    tag = t;
                    data = d;
                    heap = Some(b.with_arc(|a| a.heap_ptr() as usize));
                    counts.push((
                        "ArcUnionBorrow::strong_count",
                        ArcUnionBorrow::strong_count(&u.borrow()),
                    ));
                }
                ArcUnionBorrow::Second(_) => {
                    return viol("C12", "variant", "U1 borrows as second".into())
                }
            }
            counts.push(("ArcUnion::strong_count", ArcUnion::strong_count(u)));
            ensure!(
                u.as_second().is_none() && u.as_first().map(|b| b.get() as *const P as usize) == Some(data),
                "C12",
                "variant",
                "as_first()/as_second() of a first-variant union disagree with borrow()"
            );
        }
        H::U2(u) => {
            ensure!(
                u.is_second() && !u.is_first(),
                "C12",
                "variant",
                "U2 not second"
            );
            match u.borrow() {
                ArcUnionBorrow::Second(b) => {
                    let (i, t, d) = rd!(b.get());
                    id = i;
                    tag = t;
                    data = d;
                    heap = Some(b.with_arc(|a| a.heap_ptr() as usize));
                    counts.push((
                        "ArcUnionBorrow::strong_count",
                        ArcUnionBorrow::strong_count(&u.borrow()),
                    ));
                }
                ArcUnionBorrow::First(_) => {
                    return viol("C12", "variant", "U2 borrows as first".into())
                }
            }
            counts.push(("ArcUnion::strong_count", ArcUnion::strong_count(u)));
            ensure!(
                u.as_first().is_none() && u.as_second().map(|b| b.get() as *const P as usize) == Some(data),
                "C12",
                "variant",
                "as_first()/as_second() of a second-variant union disagree with borrow()"
            );
        }
        H::UU(u, second) => {
            ensure!(
                u.is_second() == *second,
                "C12",
                "variant",
                "UU variant flipped"
            );
            let b = match u.borrow() {
                ArcUnionBorrow::First(b) => {
                    ensure!(!*second, "C12", "variant", "UU borrows as first");
                    b
                }
                ArcUnionBorrow::Second(b) => {
                    ensure!(*second, "C12", "variant", "UU borrows as second");
                    b
                }
            };
            let (i, t, d) = rd!(b.get());
            id = i;
            tag = t;
            data = d;
            heap = Some(b.with_arc(|a| a.heap_ptr() as usize));
            counts.push(("ArcUnion::strong_count", ArcUnion::strong_count(u)));
        }
        H::Uniq(u) => {
            let (i, t, d) = rd!(&**u);
            id = i;
            tag = t;
            data = d;
            heap = None;
        }
        H::Raw(p) => {
            let (i, t, d) = rd!(unsafe { &**p });
            id = i;
            tag = t;
            data = d;
            heap = None;
            let b = unsafe { ArcBorrow::from_ptr(*p) };
            counts.push(("raw:ArcBorrow::strong_count", ArcBorrow::strong_count(&b)));
        }
        H::Dyn(a) => {
            if let Err(e) = a.tr_check() {
                return viol("C01", "live", format!("read through dyn: {}", e));
            }
            id = a.tr_id();
            tag = a.tr_tag();
            data = Arc::as_ptr(a) as *const u8 as usize;
            heap = Some(a.heap_ptr() as usize);
            counts.push(("dyn:Arc::count", Arc::count(a)));
            counts.push(("dyn:Arc::strong_count", Arc::strong_count(a)));
        }
        H::Hs(a) => {
            let (i, t, d) = rd!(&a.slice);
            id = i;
            tag = t;
            data = d;
            heap = Some(a.heap_ptr() as usize);
            counts.push(("hs:Arc::count", Arc::count(a)));
        }
        #[cfg(feature = "full")]
        H::UniqDyn(u) => {
            if let Err(e) = u.tr_check() {
                return viol("C01", "live", format!("read through UniqueArc<dyn>: {}", e));
            }
            id = u.tr_id();
            tag = u.tr_tag();
            data = &**u as *const dyn Tr as *const u8 as usize;
            heap = None;
        }
        #[cfg(feature = "full")]
        H::Swap(c) => {
            let g = shadow::untracked(|| c.load_full());
            let (i, t, d) = rd!(&*g);
            id = i;
            tag = t;
            data = d;
            heap = Some(g.heap_ptr() as usize);
            counts.push(("swap:load_full-1", Arc::count(&g) - 1));
            shadow::untracked(|| drop(g));
        }
    }
    Ok(View {
        id,
        tag,
        data,
        heap,
        counts,
    })
}

/// Every clone-style way of obtaining one more owning handle from `src` (choice `r`).
pub fn dup_handle<P: Pay + Send + Sync>(src: &H<P>, r: usize) -> (H<P>, &'static str) {
    match src {
        H::Arc(x) => match r {
            0 => (H::Arc(x.clone()), "arc.clone"),
            1 => (
                H::Arc(x.borrow_arc().clone_arc()),
                "arc.borrow_arc.clone_arc",
            ),
            2 => (
                H::Off(x.with_raw_offset_arc(|o| o.clone())),
                "arc.with_raw_offset_arc.clone",
            ),
            _ => (
                H::Arc(x.borrow_arc().with_arc(|y| y.clone())),
                "arc.borrow_arc.with_arc.clone",
            ),
        },
        H::Off(x) => match r {
            0 => (H::Off(x.clone()), "off.clone"),
            1 => (H::Arc(x.clone_arc()), "off.clone_arc"),
            2 => (H::Arc(x.with_arc(|y| y.clone())), "off.with_arc.clone"),
            _ => (
                H::Arc(x.borrow_arc().clone_arc()),
                "off.borrow_arc.clone_arc",
            ),
        },
        H::U1(x) => match r {
            0 | 1 => (H::U1(x.clone()), "u1.clone"),
            2 => (
                H::Arc(x.as_first().unwrap().clone_arc()),
                "u1.as_first.clone_arc",
            ),
            _ => match x.borrow() {
                ArcUnionBorrow::First(b) => (H::Arc(b.clone_arc()), "u1.borrow.clone_arc"),
                ArcUnionBorrow::Second(_) => unreachable!(),
            },
        },
        H::U2(x) => match r {
            0 | 1 => (H::U2(x.clone()), "u2.clone"),
            2 => (
                H::Arc(x.as_second().unwrap().clone_arc()),
                "u2.as_second.clone_arc",
            ),
            _ => match x.borrow() {
                ArcUnionBorrow::Second(b) => (H::Arc(b.clone_arc()), "u2.borrow.clone_arc"),
                ArcUnionBorrow::First(_) => unreachable!(),
            },
        },
        H::UU(x, sec) => match r {
            0 | 1 => (H::UU(x.clone(), *sec), "uu.clone"),
            _ => match x.borrow() {
                ArcUnionBorrow::First(b) | ArcUnionBorrow::Second(b) => {
                    (H::Arc(b.clone_arc()), "uu.borrow.clone_arc")
                }
            },
        },
        H::Uniq(_) => (H::Raw(std::ptr::null()), "none"),
        #[cfg(feature = "full")]
        H::UniqDyn(_) => (H::Raw(std::ptr::null()), "none"),
        H::Raw(p) => {
            let b = unsafe { ArcBorrow::from_ptr(*p) };
            match r {
                0 | 1 => (H::Arc(b.clone_arc()), "raw.from_ptr.clone_arc"),
                _ => (
                    H::Arc(b.with_arc(|y| y.clone())),
                    "raw.from_ptr.with_arc.clone",
                ),
            }
        }
        H::Dyn(x) => (H::Dyn(x.clone()), "dyn.clone"),
        H::Hs(x) => (H::Hs(x.clone()), "hs.clone"),
        #[cfg(feature = "full")]
        H::Swap(c) => (
            H::Arc(shadow::untracked(|| c.load_full())),
            "swap.load_full",
        ),
    }
}

/// Every consuming conversion of a handle into another kind (choice `r`); `None` = released.
pub fn conv_handle<P: Pay + Send + Sync>(
    h: H<P>,
    r: usize,
    even: bool,
) -> (Option<H<P>>, &'static str) {
    match h {
        H::Arc(x) => match r {
            0 => (Some(H::Off(Arc::into_raw_offset(x))), "arc->off"),
            1 => (Some(H::U1(ArcUnion::from_first(x))), "arc->u1"),
            2 => (Some(H::U2(ArcUnion::from_second(x))), "arc->u2"),
            3 => (Some(H::Raw(Arc::into_raw(x))), "arc->raw"),
            4 => {
                #[cfg(feature = "full")]
                {
                    use unsize::CoerceUnsize;
                    if even {
                        let d: Arc<dyn Tr> = x.unsize(unsize::Coercion!(to dyn Tr));
                        return (Some(H::Dyn(d)), "arc->dyn(unsize)");
                    }
                }
                let p = Arc::into_raw(x) as *const dyn Tr;
                (Some(H::Dyn(unsafe { Arc::from_raw(p) })), "arc->dyn(raw)")
            }
            5 => (Some(H::Hs(x.into())), "arc->hs"),
            6 => {
                #[cfg(feature = "full")]
                {
                    (
                        Some(H::Swap(shadow::untracked(|| ArcSwapAny::new(x)))),
                        "arc->swap",
                    )
                }
                #[cfg(not(feature = "full"))]
                {
                    (Some(H::UU(ArcUnion::from_second(x), true)), "arc->uu2")
                }
            }
            _ => {
                if even {
                    (Some(H::UU(ArcUnion::from_first(x), false)), "arc->uu1")
                } else {
                    (Some(H::UU(ArcUnion::from_second(x), true)), "arc->uu2")
                }
            }
        },
        H::Off(x) => (Some(H::Arc(Arc::from_raw_offset(x))), "off->arc"),
        H::U1(x) => {
            // no consuming conversion exists: clone out as an Arc, then release the union
            let y = x.as_first().unwrap().clone_arc();
            drop(x);
            (Some(H::Arc(y)), "u1->arc(clone_arc+drop)")
        }
        H::U2(x) => {
            let y = x.as_second().unwrap().clone_arc();
            drop(x);
            (Some(H::Arc(y)), "u2->arc(clone_arc+drop)")
        }
        H::UU(x, _) => {
            let y = match x.borrow() {
                ArcUnionBorrow::First(b) | ArcUnionBorrow::Second(b) => b.clone_arc(),
            };
            drop(x);
            (Some(H::Arc(y)), "uu->arc(clone_arc+drop)")
        }
        H::Uniq(x) => {
            #[cfg(feature = "full")]
            {
                if r % 2 == 1 {
                    use unsize::CoerceUnsize;
                    let d: UniqueArc<dyn Tr> = x.unsize(unsize::Coercion!(to dyn Tr));
                    return (Some(H::UniqDyn(d)), "uniq->uniqdyn(unsize)");
                }
            }
            (Some(H::Arc(x.shareable())), "uniq->arc")
        }
        #[cfg(feature = "full")]
        H::UniqDyn(x) => (Some(H::Dyn(x.shareable())), "uniqdyn->dyn"),
        H::Raw(p) => match r % 2 {
            0 => (Some(H::Arc(unsafe { Arc::from_raw(p) })), "raw->arc"),
            _ => {
                // raw -> trait-object pointer -> Arc<dyn>
                let d = p as *const dyn Tr;
                (Some(H::Dyn(unsafe { Arc::from_raw(d) })), "raw->dyn")
            }
        },
        H::Dyn(x) => {
            // no way back to a sized handle: release
            drop(x);
            (None, "dyn.drop")
        }
        H::Hs(x) => (Some(H::Arc(x.into())), "hs->arc"),
        #[cfg(feature = "full")]
        H::Swap(c) => match r % 3 {
            0 => (
                Some(H::Arc(shadow::untracked(|| c.into_inner()))),
                "swap->arc",
            ),
            1 => {
                // store a clone of itself then swap it out: exercises store + swap on one allocation
                let y = shadow::untracked(|| {
                    let cur = c.load_full();
                    c.store(cur.clone());
                    let z = c.swap(cur);
                    drop(z);
                    c
                });
                (Some(H::Swap(y)), "swap.store+swap")
            }
            _ => (
                Some(H::Arc(shadow::untracked(|| c.into_inner()))),
                "swap->arc",
            ),
        },
    }
}

/// Release an owning handle the way its kind is released.
pub fn drop_handle<P: Pay + Send + Sync>(h: H<P>) {
    match h {
        H::Raw(p) => drop(unsafe { Arc::from_raw(p) }),
        #[cfg(feature = "full")]
        H::Swap(c) => shadow::untracked(|| drop(c)),
        other => drop(other),
    }
}

unsafe impl<P: Pay + Send + Sync> Send for H<P> {}

impl<'s, P: Pay + Send + Sync> W<'s, P> {
    fn owners(&self, a: usize) -> usize {
        self.slots.iter().flatten().filter(|s| s.a == a).count()
    }
    fn owner_kinds(&self, a: usize, except: usize) -> String {
        let mut v: Vec<&str> = self
            .slots
            .iter()
            .enumerate()
            .filter_map(|(i, s)| s.as_ref().map(|s| (i, s)))
            .filter(|(i, s)| s.a == a && *i != except)
            .map(|(_, s)| s.h.kind())
            .collect();
        v.sort();
        v.join("+")
    }
    fn free_slot(&mut self) -> Option<usize> {
        let free: Vec<usize> = (0..self.slots.len())
            .filter(|i| self.slots[*i].is_none())
            .collect();
        if free.is_empty() {
            None
        } else {
            Some(free[self.rng.below(free.len())])
        }
    }
    fn used_slots(&self) -> Vec<usize> {
        (0..self.slots.len())
            .filter(|i| self.slots[*i].is_some())
            .collect()
    }
    fn slots_of(&self, kind: &str) -> Vec<usize> {
        (0..self.slots.len())
            .filter(|i| matches!(&self.slots[*i], Some(s) if s.h.kind() == kind))
            .collect()
    }
    fn tag(&mut self) -> u64 {
        self.next_tag = (self.next_tag + 1) % 200;
        self.next_tag + 1
    }
    fn log(&mut self, s: String) {
        self.trace.push(s);
    }
    fn sig(&mut self, a: usize, what: &str) {
        let s = &mut self.allocs[a].sig;
        if s.len() < 400 {
            s.push_str(what);
            s.push(';');
        }
    }

    /// Register a freshly created allocation reachable through `h`.
    fn adopt(&mut self, slot: usize, h: H<P>, how: &str) -> R {
        let v = view(&h)?;
        let block = v.heap.unwrap_or(0);
        if shadow::active() && block != 0 {
            ensure!(
                shadow::live_layout(block).is_some(),
                "C01,C11",
                "live",
                "heap_ptr {:#x} of a new allocation is not a live block of the allocator",
                block
            );
        }
        self.allocs.push(AllocM {
            id: v.id,
            tag: v.tag,
            block,
            data: v.data,
            live: true,
            sig: String::new(),
        });
        let a = self.allocs.len() - 1;
        self.sig(a, how);
        self.last_a = a;
        self.slots[slot] = Some(Slot { h, a });
        Ok(())
    }

    /// The model says allocation `a` just lost its last owner: check that it died now.
    fn expect_dead(&mut self, a: usize, by: &str) -> R {
        let m = &mut self.allocs[a];
        m.live = false;
        if P::HAS_ID {
            ensure!(
                tk::state(m.id) == tk::DEAD,
                "C01",
                "live",
                "payload id={} not destroyed when its last owner ({}) was released",
                m.id,
                by
            );
        }
        if shadow::active() && m.block != 0 {
            ensure!(
                shadow::live_layout(m.block).is_none(),
                "C01",
                "live",
                "block {:#x} not returned when the last owner ({}) was released",
                m.block,
                by
            );
        }
        self.st.counts.bump(&format!("final_release_by.{}", by));
        let s = self.allocs[a].sig.clone();
        let hsh = hash64(&s);
        self.st.sigs.insert(hsh);
        // non-trivial: at least two different handle kinds or a raw-pointer leg took part
        let mut kinds: Vec<&str> = s
            .split(';')
            .filter(|x| !x.is_empty())
            .map(|x| x.split(':').last().unwrap_or(""))
            .collect();
        kinds.sort();
        kinds.dedup();
        if kinds.len() >= 2 || s.contains("raw") {
            self.st.nontrivial_sigs.insert(hsh);
        }
        Ok(())
    }

    /// Value moved out of its allocation (allocation gone, payload still alive).
    fn expect_moved_out(&mut self, a: usize, by: &str, val: P) -> R {
        let m = &mut self.allocs[a];
        m.live = false;
        ensure!(
            val.id() == m.id && val.tag() == m.tag,
            "C09",
            "unwrap",
            "{}: value handed out is not the original (id {} tag {} vs model id {} tag {})",
            by,
            val.id(),
            val.tag(),
            m.id,
            m.tag
        );
        if let Err(e) = val.check() {
            return viol(
                "C09",
                "unwrap",
                format!("{}: value handed out is not alive: {}", by, e),
            );
        }
        if shadow::active() && m.block != 0 {
            ensure!(
                shadow::live_layout(m.block).is_none(),
                "C09,C01",
                "unwrap",
                "{}: block {:#x} not returned after the value was moved out",
                by,
                m.block
            );
        }
        self.st.counts.bump(&format!("moved_out_by.{}", by));
        self.loose_ids.push(val.id());
        self.loose.push(val);
        Ok(())
    }

    /// Compare everything observable with the model.
    fn verify(&mut self, ctx: &str) -> R {
        set_op("C01,C04|reading values and counts through every live handle");
        let n_live_allocs = self.allocs.iter().filter(|m| m.live).count();
        for i in 0..self.slots.len() {
            let (a, kind, v) = match &self.slots[i] {
                None => continue,
                // light mode (interpreters): only the handles of the allocation just touched
                Some(s) if self.light && s.a != self.last_a => continue,
                Some(s) => (s.a, s.h.kind(), view(&s.h)?),
            };
            let owners = self.owners(a);
            let m = &self.allocs[a];
            ensure!(
                m.live,
                "C01",
                "live",
                "harness: slot refers to dead model alloc"
            );
            ensure!(
                v.id == m.id && v.tag == m.tag,
                "C01",
                "live",
                "after {}: {} handle sees id={} tag={} but the model holds id={} tag={}",
                ctx,
                kind,
                v.id,
                v.tag,
                m.id,
                m.tag
            );
            ensure!(
                v.data == m.data,
                "C11,C01",
                "live",
                "after {}: {} handle's value address {:#x} differs from the allocation's {:#x}",
                ctx,
                kind,
                v.data,
                m.data
            );
            if let Some(h) = v.heap {
                ensure!(
                    h == m.block,
                    "C11,C01",
                    "live",
                    "after {}: {} handle's heap_ptr {:#x} differs from the allocation's {:#x}",
                    ctx,
                    kind,
                    h,
                    m.block
                );
            }
            for (name, c) in &v.counts {
                if let Some(api) = name.strip_prefix("uniq:") {
                    // a non-mutating uniqueness verdict, taken at every step: it must agree with the model's owner count
                    self.st.counts.bump("uniq_obs.passive");
                    ensure!(
                        (*c == 1) == (owners == 1),
                        "C03,C04",
                        "uniq",
                        "after {}: {} through a {} handle says unique={} but {} owning handles exist",
                        ctx,
                        api,
                        kind,
                        *c == 1,
                        owners
                    );
                    continue;
                }
                if !self.light {
                    self.st.counts.bump(&format!("count_obs.{}", name));
                } else {
                    self.st.counts.bump("count_obs.any");
                }
                if *c != owners {
                    // observational: record it and keep going, so that the consequences (leak, early
                    // destruction) are still attributed by the other oracles of this history
                    let msg = format!(
                        "after {}: {} through a {} handle reports {} but {} owning handles exist ({})",
                        ctx,
                        name,
                        kind,
                        c,
                        owners,
                        self.owner_kinds(a, usize::MAX)
                    );
                    soft_push(&mut self.soft, "C04", "count", msg);
                }
                if owners >= 2 && !self.light {
                    let k = format!(
                        "{}|{}|{}",
                        ctx.split(' ').next().unwrap_or(""),
                        name,
                        self.owner_kinds(a, usize::MAX)
                    );
                    self.st.ctx_sigs.insert(hash64(&k));
                }
            }
            if kind == "uniq" || kind == "uniqdyn" {
                ensure!(
                    owners == 1,
                    "C03",
                    "uniq",
                    "harness/model: UniqueArc coexists with {} owners",
                    owners
                );
            }
        }
        // conservation of tracked values: one per live allocation plus the ones moved out
        if P::HAS_ID {
            let expect = (n_live_allocs + self.loose.len()) as i64;
            ensure!(
                tk::live() == expect,
                "C01",
                "live",
                "after {}: {} tracked values alive, model expects {} ({} allocations + {} moved out)",
                ctx,
                tk::live(),
                expect,
                n_live_allocs,
                self.loose.len()
            );
        } else {
            let expect = (n_live_allocs + self.loose.len()) as i64;
            ensure!(
                tk::z_live() - self.z0 == expect,
                "C01",
                "live",
                "after {}: {} zero-sized values alive, model expects {}",
                ctx,
                tk::z_live() - self.z0,
                expect
            );
        }
        for id in &self.loose_ids {
            if P::HAS_ID {
                ensure!(
                    tk::state(*id) == tk::LIVE_S,
                    "C09",
                    "unwrap",
                    "moved-out value id={} was destroyed",
                    id
                );
            }
        }
        if shadow::active() {
            for m in self.allocs.iter().filter(|m| m.live && m.block != 0) {
                ensure!(
                    shadow::live_layout(m.block).is_some(),
                    "C01",
                    "live",
                    "after {}: block {:#x} of a live allocation (id={}) was returned to the allocator",
                    ctx,
                    m.block,
                    m.id
                );
            }
        }
        let f = tk::take_findings();
        if !f.is_empty() {
            return viol("C01", "live", format!("after {}: {}", ctx, f.join("; ")));
        }
        let f = shadow::take_findings();
        if let Some(x) = f.first() {
            let props = if x.kind == "dealloc-layout-mismatch" {
                "C05,C01"
            } else {
                "C01"
            };
            return viol(
                props,
                "alloc",
                format!("after {}: allocator monitor: {:?}", ctx, x),
            );
        }
        Ok(())
    }

    // ---------------------------------------------------------------------------------------

    fn new_arc(&mut self) -> R<(Arc<P>, &'static str)> {
        let t = self.tag();
        let r = self.rng.below(6);
        let (a, how): (Arc<P>, &'static str) = shadow::tracked(|| match r {
            0 => (Arc::new(P::make(t)), "new"),
            1 => (Arc::from(P::make(t)), "from_t"),
            2 => (Arc::from(Box::new(P::make(t))), "from_box"),
            3 => (UniqueArc::new(P::make(t)).shareable(), "uniq_new"),
            4 => {
                let mut u = UniqueArc::<P>::new_uninit();
                u.write(P::make(t));
                (
                    unsafe { UniqueArc::assume_init(u) }.shareable(),
                    "uniq_uninit",
                )
            }
            _ => {
                let mut a: Arc<std::mem::MaybeUninit<P>> = Arc::new_uninit();
                Arc::get_mut(&mut a).unwrap().write(P::make(t));
                (unsafe { a.assume_init() }, "arc_uninit")
            }
        });
        Ok((a, how))
    }

    /// Take an owned Arc<P> out of slot `i` if its kind converts to one without touching the count.
    fn step(&mut self) -> R {
        let used = self.used_slots();
        let free = self.free_slot();
        // choose an action
        let roll = self.rng.below(100);
        if used.is_empty() || (roll < 10 && free.is_some()) {
            let s = free.unwrap();
            let (a, how) = self.new_arc()?;
            self.log(format!("s{} = {}", s, how));
            self.st.counts.bump(&format!("edge.create:{}", how));
            self.adopt(s, H::Arc(a), &format!("create:{}", how))?;
            return self.verify("create");
        }
        let i = *self.rng.pick(&used);
        let a = self.slots[i].as_ref().unwrap().a;
        self.last_a = a;
        let kind = self.slots[i].as_ref().unwrap().h.kind();
        if roll < 32 {
            if let Some(s) = free {
                return self.op_clone(i, s, a, kind);
            }
        }
        if roll < 52 {
            return self.op_convert(i, a, kind);
        }
        if roll < 66 {
            return self.op_drop(i, a, kind);
        }
        if roll < 86 {
            return self.op_unique(i, a, kind);
        }
        if roll >= 90 && roll < 92 {
            return self.op_clone_from(i, a, kind);
        }
        if roll < 92 {
            let j = self.rng.below(self.slots.len());
            self.slots.swap(i, j);
            self.log(format!("move s{} <-> s{}", i, j));
            self.st.counts.bump("op.move");
            return self.verify("move");
        }
        self.op_compare(i)
    }

    /// `handle.clone_from(&other)` between two handles of the same kind: the old allocation loses one owner
    /// (and is destroyed if that was the last), the source's allocation gains one.
    fn op_clone_from(&mut self, i: usize, a_old: usize, kind: &'static str) -> R {
        set_op("C01,C04|clone_from");
        let used = self.used_slots();
        let j = *self.rng.pick(&used);
        if j == i {
            return self.verify("noop");
        }
        let mut slot = self.slots[i].take().unwrap();
        let a_new = self.slots[j].as_ref().unwrap().a;
        let done = {
            let src = &self.slots[j].as_ref().unwrap().h;
            shadow::tracked(|| match (&mut slot.h, src) {
                (H::Arc(x), H::Arc(y)) => {
                    x.clone_from(y);
                    true
                }
                (H::Off(x), H::Off(y)) => {
                    x.clone_from(y);
                    true
                }
                (H::U1(x), H::U1(y)) => {
                    x.clone_from(y);
                    true
                }
                (H::U2(x), H::U2(y)) => {
                    x.clone_from(y);
                    true
                }
                (H::UU(x, vx), H::UU(y, vy)) => {
                    x.clone_from(y);
                    *vx = *vy;
                    true
                }
                (H::Dyn(x), H::Dyn(y)) => {
                    x.clone_from(y);
                    true
                }
                (H::Hs(x), H::Hs(y)) => {
                    x.clone_from(y);
                    true
                }
                _ => false,
            })
        };
        if !done {
            self.slots[i] = Some(slot);
            return self.verify("noop");
        }
        slot.a = a_new;
        self.slots[i] = Some(slot);
        self.log(format!("s{}.clone_from(&s{}) ({})", i, j, kind));
        self.st.counts.bump(&format!("edge.clone:clone_from:{}", kind));
        self.sig(a_new, &format!("clone_from:{}", kind));
        if a_old != a_new && self.owners(a_old) == 0 {
            self.expect_dead(a_old, kind)?;
        }
        self.last_a = a_new;
        self.verify("clone_from")
    }

    fn op_clone(&mut self, i: usize, s: usize, a: usize, kind: &'static str) -> R {
        set_op("C01,C04|clone-style operation");
        let r = self.rng.below(4);
        let before = self.owners(a);
        let (h, how): (H<P>, &'static str) = {
            let src = &self.slots[i].as_ref().unwrap().h;
            shadow::tracked(|| dup_handle(src, r))
        };
        if how == "none" {
            // a UniqueArc cannot be cloned; just inspect
            return self.verify("noop");
        }
        self.log(format!("s{} = s{}.{}", s, i, how));
        self.st.counts.bump(&format!("edge.clone:{}", how));
        let newkind = h.kind();
        self.slots[s] = Some(Slot { h, a });
        self.sig(a, &format!("clone:{}:{}", kind, newkind));
        let after = self.owners(a);
        debug_assert_eq!(after, before + 1);
        self.verify(how)
    }

    fn op_convert(&mut self, i: usize, a: usize, kind: &'static str) -> R {
        set_op("C01,C11|conversion between handle kinds");
        let slot = self.slots[i].take().unwrap();
        let r = self.rng.below(8);
        let owners = self.owners(a) + 1;
        let (h, how): (Option<H<P>>, &'static str) =
            shadow::tracked(|| conv_handle(slot.h, r, owners % 2 == 0));
        let released = h.is_none();
        self.log(format!("s{} : {}", i, how));
        self.st.counts.bump(&format!("edge.convert:{}", how));
        match h {
            Some(h) => {
                let nk = h.kind();
                self.slots[i] = Some(Slot { h, a });
                self.sig(a, &format!("conv:{}:{}", kind, nk));
            }
            None => {
                debug_assert!(released);
                self.sig(a, &format!("drop:{}", kind));
                if owners == 1 {
                    self.expect_dead(a, kind)?;
                }
            }
        }
        self.verify(how)
    }

    fn op_drop(&mut self, i: usize, a: usize, kind: &'static str) -> R {
        set_op("C01|release of an owning handle");
        let slot = self.slots[i].take().unwrap();
        let owners = self.owners(a) + 1;
        self.log(format!("drop s{} ({})", i, kind));
        self.st.counts.bump(&format!("op.drop:{}", kind));
        shadow::tracked(|| drop_handle(slot.h));
        self.sig(a, &format!("drop:{}", kind));
        if owners == 1 {
            self.expect_dead(a, kind)?;
        }
        self.verify("drop")
    }

    /// Uniqueness-gated APIs, copy-on-write and unwrapping.
    fn op_unique(&mut self, i: usize, a: usize, kind: &'static str) -> R {
        set_op("C03,C01|uniqueness-gated operation");
        let owners = self.owners(a);
        let sole = owners == 1;
        let co = self.owner_kinds(a, i);
        let cell = |api: &str, granted: bool| {
            format!(
                "uniq.{}.{}{}",
                api,
                if granted { "grant" } else { "decline" },
                if granted {
                    String::new()
                } else {
                    format!(".with:{}", co)
                }
            )
        };
        let m_id = self.allocs[a].id;
        let m_tag = self.allocs[a].tag;
        let m_block = self.allocs[a].block;
        let r = self.rng.below(12);
        let newtag = self.tag();
        let clones0 = tk::clones();
        match kind {
            "arc" => {
                let mut slot = self.slots[i].take().unwrap();
                let x = match &mut slot.h {
                    H::Arc(x) => x,
                    _ => unreachable!(),
                };
                match r {
                    0 => {
                        set_op("C03,C01|Arc::get_mut");
                        let g = shadow::tracked(|| {
                            Arc::get_mut(x).map(|m| m.set_tag(newtag)).is_some()
                        });
                        self.log(format!("get_mut s{} -> {}", i, g));
                        self.st.counts.bump(&cell("get_mut", g));
                        ensure!(
                            g == sole,
                            "C03",
                            "uniq",
                            "Arc::get_mut granted={} with {} owners ({})",
                            g,
                            owners,
                            co
                        );
                        if g {
                            self.allocs[a].tag = norm::<P>(newtag);
                        }
                        self.slots[i] = Some(slot);
                    }
                    1 => {
                        set_op("C03,C01|Arc::get_unique");
                        let g = shadow::tracked(|| {
                            Arc::get_unique(x).map(|u| u.set_tag(newtag)).is_some()
                        });
                        self.log(format!("get_unique s{} -> {}", i, g));
                        self.st.counts.bump(&cell("get_unique", g));
                        ensure!(
                            g == sole,
                            "C03",
                            "uniq",
                            "Arc::get_unique granted={} with {} owners ({})",
                            g,
                            owners,
                            co
                        );
                        if g {
                            self.allocs[a].tag = norm::<P>(newtag);
                        }
                        self.slots[i] = Some(slot);
                    }
                    2 => {
                        let g = x.is_unique();
                        self.log(format!("is_unique s{} -> {}", i, g));
                        self.st.counts.bump(&cell("is_unique", g));
                        ensure!(
                            g == sole,
                            "C03",
                            "uniq",
                            "Arc::is_unique={} with {} owners ({})",
                            g,
                            owners,
                            co
                        );
                        self.slots[i] = Some(slot);
                    }
                    3 | 4 => {
                        // try_unique / TryFrom
                        let api = if r == 3 { "try_unique" } else { "try_from" };
                        let arc = match slot.h {
                            H::Arc(x) => x,
                            _ => unreachable!(),
                        };
                        set_op("C03,C09,C01|Arc::try_unique / TryFrom");
                        let res = shadow::tracked(|| {
                            if r == 3 {
                                Arc::try_unique(arc)
                            } else {
                                UniqueArc::try_from(arc)
                            }
                        });
                        self.log(format!("{} s{} -> {}", api, i, res.is_ok()));
                        self.st.counts.bump(&cell(api, res.is_ok()));
                        match res {
                            Ok(mut u) => {
                                ensure!(
                                    sole,
                                    "C03,C09",
                                    "uniq",
                                    "{} granted sole ownership with {} owners ({})",
                                    api,
                                    owners,
                                    co
                                );
                                u.set_tag(newtag);
                                self.allocs[a].tag = norm::<P>(newtag);
                                self.slots[i] = Some(Slot { h: H::Uniq(u), a });
                                self.sig(a, "conv:arc:uniq");
                            }
                            Err(back) => {
                                ensure!(
                                    !sole,
                                    "C03,C09",
                                    "uniq",
                                    "{} declined for a sole owner",
                                    api
                                );
                                ensure!(
                                    back.heap_ptr() as usize == m_block,
                                    "C03,C09",
                                    "uniq",
                                    "{} declined but returned a handle to another allocation",
                                    api
                                );
                                self.slots[i] = Some(Slot { h: H::Arc(back), a });
                            }
                        }
                    }
                    5 => {
                        let arc = match slot.h {
                            H::Arc(x) => x,
                            _ => unreachable!(),
                        };
                        set_op("C09,C03,C01|Arc::try_unwrap");
                        let res = shadow::tracked(|| Arc::try_unwrap(arc));
                        self.log(format!("try_unwrap s{} -> {}", i, res.is_ok()));
                        self.st.counts.bump(&cell("try_unwrap", res.is_ok()));
                        match res {
                            Ok(v) => {
                                ensure!(
                                    sole,
                                    "C03,C09",
                                    "unwrap",
                                    "try_unwrap moved the value out with {} owners ({})",
                                    owners,
                                    co
                                );
                                ensure!(
                                    tk::clones() == clones0,
                                    "C09",
                                    "unwrap",
                                    "try_unwrap cloned the value"
                                );
                                self.sig(a, "unwrap:arc");
                                self.expect_moved_out(a, "try_unwrap", v)?;
                            }
                            Err(back) => {
                                ensure!(
                                    !sole,
                                    "C03,C09",
                                    "unwrap",
                                    "try_unwrap declined for a sole owner"
                                );
                                ensure!(
                                    back.heap_ptr() as usize == m_block,
                                    "C09",
                                    "unwrap",
                                    "try_unwrap declined but returned a handle to another allocation"
                                );
                                self.slots[i] = Some(Slot { h: H::Arc(back), a });
                            }
                        }
                    }
                    6 => {
                        let arc = match slot.h {
                            H::Arc(x) => x,
                            _ => unreachable!(),
                        };
                        set_op("C09,C01|Arc::unwrap_or_clone");
                        let v = shadow::tracked(|| Arc::unwrap_or_clone(arc));
                        self.log(format!("unwrap_or_clone s{} (sole={})", i, sole));
                        self.st.counts.bump(&cell("unwrap_or_clone", sole));
                        self.sig(a, "unwrap_or_clone:arc");
                        if sole {
                            ensure!(
                                tk::clones() == clones0,
                                "C09",
                                "unwrap",
                                "unwrap_or_clone cloned a solely owned value"
                            );
                            self.expect_moved_out(a, "unwrap_or_clone", v)?;
                        } else {
                            ensure!(
                                tk::clones() == clones0 + 1,
                                "C09",
                                "unwrap",
                                "unwrap_or_clone on a shared value made {} clones",
                                tk::clones() - clones0
                            );
                            if P::HAS_ID {
                                ensure!(
                                    v.id() != m_id && tk::origin(v.id()) == m_id,
                                    "C09",
                                    "unwrap",
                                    "unwrap_or_clone on a shared value returned id={} (origin {}), expected a clone of {}",
                                    v.id(),
                                    tk::origin(v.id()),
                                    m_id
                                );
                            }
                            ensure!(
                                v.tag() == m_tag,
                                "C09",
                                "unwrap",
                                "unwrap_or_clone returned a different value"
                            );
                            self.loose_ids.push(v.id());
                            self.loose.push(v);
                        }
                    }
                    7 | 8 | 9 => {
                        // make_mut / make_unique
                        let api = if r == 7 { "make_mut" } else { "make_unique" };
                        set_op("C08,C03,C01|Arc::make_mut / make_unique");
                        shadow::tracked(|| {
                            if r == 7 {
                                Arc::make_mut(x).set_tag(newtag)
                            } else {
                                Arc::make_unique(x).set_tag(newtag)
                            }
                        });
                        self.log(format!("{} s{} (sole={})", api, i, sole));
                        self.st.counts.bump(&cell(api, sole));
                        let nb = x.heap_ptr() as usize;
                        if sole {
                            ensure!(
                                nb == m_block,
                                "C08,C03",
                                "cow",
                                "{} moved a solely owned value to a new allocation",
                                api
                            );
                            ensure!(
                                tk::clones() == clones0,
                                "C08,C03",
                                "cow",
                                "{} cloned a solely owned value",
                                api
                            );
                            self.allocs[a].tag = norm::<P>(newtag);
                            self.slots[i] = Some(slot);
                        } else {
                            ensure!(
                                nb != m_block,
                                "C08,C03",
                                "cow",
                                "{} wrote in place while {} other owners exist ({})",
                                api,
                                owners - 1,
                                co
                            );
                            ensure!(
                                tk::clones() == clones0 + 1,
                                "C08",
                                "cow",
                                "{} on a shared value made {} clones",
                                api,
                                tk::clones() - clones0
                            );
                            ensure!(
                                Arc::count(x) == 1,
                                "C08",
                                "cow",
                                "{}: the fresh copy is not solely owned",
                                api
                            );
                            let nid = x.id();
                            if P::HAS_ID {
                                ensure!(
                                    tk::origin(nid) == m_id,
                                    "C08",
                                    "cow",
                                    "{}: the copy (id {}) was not cloned from the original (id {})",
                                    api,
                                    nid,
                                    m_id
                                );
                            }
                            let h = slot.h;
                            self.sig(a, "cow-leave:arc");
                            self.adopt(i, h, "create:cow")?;
                            let na = self.allocs.len() - 1;
                            ensure!(
                                self.allocs[na].tag == norm::<P>(newtag),
                                "C08",
                                "cow",
                                "{}: write not visible through the writing handle",
                                api
                            );
                        }
                    }
                    _ => {
                        // count inside borrow callbacks while another borrow is active
                        let c = shadow::tracked(|| {
                            x.with_raw_offset_arc(|o| {
                                o.with_arc(|y| y.borrow_arc().with_arc(|z| Arc::count(z)))
                            })
                        });
                        self.st.counts.bump("count_obs.nested-callbacks");
                        ensure!(
                            c == owners,
                            "C04",
                            "count",
                            "count inside nested borrow callbacks is {} with {} owners",
                            c,
                            owners
                        );
                        self.slots[i] = Some(slot);
                    }
                }
            }
            "off" => {
                let slot = self.slots[i].as_mut().unwrap();
                let x = match &mut slot.h {
                    H::Off(x) => x,
                    _ => unreachable!(),
                };
                set_op("C08,C03,C01|OffsetArc::make_mut");
                shadow::tracked(|| x.make_mut().set_tag(newtag));
                let nb = x.with_arc(|y| y.heap_ptr() as usize);
                let cnt = OffsetArc::strong_count(x);
                let nid = x.id();
                self.log(format!("off.make_mut s{} (sole={})", i, sole));
                self.st.counts.bump(&cell("off.make_mut", sole));
                if sole {
                    ensure!(
                        nb == m_block,
                        "C08,C03",
                        "cow",
                        "OffsetArc::make_mut moved a solely owned value"
                    );
                    ensure!(
                        tk::clones() == clones0,
                        "C08",
                        "cow",
                        "OffsetArc::make_mut cloned a solely owned value"
                    );
                    self.allocs[a].tag = norm::<P>(newtag);
                } else {
                    ensure!(
                        nb != m_block,
                        "C08,C03",
                        "cow",
                        "OffsetArc::make_mut wrote in place while {} other owners exist ({})",
                        owners - 1,
                        co
                    );
                    ensure!(
                        tk::clones() == clones0 + 1,
                        "C08",
                        "cow",
                        "OffsetArc::make_mut made {} clones",
                        tk::clones() - clones0
                    );
                    ensure!(
                        cnt == 1,
                        "C08",
                        "cow",
                        "OffsetArc::make_mut: the fresh copy is not solely owned"
                    );
                    if P::HAS_ID {
                        ensure!(
                            tk::origin(nid) == m_id,
                            "C08",
                            "cow",
                            "OffsetArc::make_mut: copy not cloned from the original"
                        );
                    }
                    let s = self.slots[i].take().unwrap();
                    self.sig(a, "cow-leave:off");
                    self.adopt(i, s.h, "create:cow-off")?;
                }
            }
            "uniq" => {
                let slot = self.slots[i].take().unwrap();
                let u = match slot.h {
                    H::Uniq(u) => u,
                    _ => unreachable!(),
                };
                if r < 6 {
                    set_op("C09,C01|UniqueArc::into_inner");
                    let v = shadow::tracked(|| UniqueArc::into_inner(u));
                    self.log(format!("into_inner s{}", i));
                    self.st.counts.bump("uniq.into_inner");
                    ensure!(
                        tk::clones() == clones0,
                        "C09",
                        "unwrap",
                        "into_inner cloned the value"
                    );
                    self.sig(a, "unwrap:uniq");
                    self.expect_moved_out(a, "into_inner", v)?;
                } else {
                    let mut u = u;
                    u.set_tag(newtag); // DerefMut
                    self.allocs[a].tag = norm::<P>(newtag);
                    self.st.counts.bump("uniq.deref_mut");
                    self.slots[i] = Some(Slot { h: H::Uniq(u), a });
                }
            }
            "hs" => {
                let slot = self.slots[i].as_mut().unwrap();
                let x = match &mut slot.h {
                    H::Hs(x) => x,
                    _ => unreachable!(),
                };
                let g =
                    shadow::tracked(|| Arc::get_mut(x).map(|m| m.slice.set_tag(newtag)).is_some());
                self.st.counts.bump(&cell("hs.get_mut", g));
                ensure!(
                    g == sole,
                    "C03",
                    "uniq",
                    "get_mut on Arc<HeaderSlice<(),T>> granted={} with {} owners ({})",
                    g,
                    owners,
                    co
                );
                if g {
                    self.allocs[a].tag = norm::<P>(newtag);
                }
            }
            "dyn" => {
                let slot = self.slots[i].as_mut().unwrap();
                let x = match &mut slot.h {
                    H::Dyn(x) => x,
                    _ => unreachable!(),
                };
                let g = x.is_unique();
                let g2 = Arc::get_mut(x).is_some();
                self.st.counts.bump(&cell("dyn.is_unique", g));
                ensure!(
                    g == sole && g2 == sole,
                    "C03",
                    "uniq",
                    "is_unique/get_mut on Arc<dyn> = {}/{} with {} owners ({})",
                    g,
                    g2,
                    owners,
                    co
                );
            }
            _ => {
                // drop a moved-out value now, if any
                if let Some(v) = self.loose.pop() {
                    let id = self.loose_ids.pop().unwrap();
                    drop(v);
                    if P::HAS_ID {
                        ensure!(
                            tk::state(id) == tk::DEAD,
                            "C09",
                            "unwrap",
                            "harness: dropping a moved-out value did not run its destructor"
                        );
                    }
                }
            }
        }
        self.verify("unique-op")
    }

    fn op_compare(&mut self, i: usize) -> R {
        set_op("C14,C01|compare/hash/format through a handle");
        // compare / hash / format through the handle: must not change any count
        let used = self.used_slots();
        let j = *self.rng.pick(&used);
        let (ti, tj) = {
            let a = self.slots[i].as_ref().unwrap().a;
            let b = self.slots[j].as_ref().unwrap().a;
            (self.allocs[a].tag, self.allocs[b].tag)
        };
        let same = self.slots[i].as_ref().unwrap().a == self.slots[j].as_ref().unwrap().a;
        let hi = &self.slots[i].as_ref().unwrap().h;
        let hj = &self.slots[j].as_ref().unwrap().h;
        use std::hash::{Hash, Hasher};
        let mut done = "none";
        let mut probe_seen: Option<(usize, usize)> = None;
        match (hi, hj) {
            (H::Arc(x), H::Arc(y)) => {
                // the count as seen from *inside* the payload's eq / cmp / hash / fmt callbacks
                let pd = ProbeData::<P> {
                    arc: x as *const Arc<P>,
                    seen_min: std::cell::Cell::new(usize::MAX),
                    seen_max: std::cell::Cell::new(0),
                };
                tk::set_probe(Some((probe_count::<P>, &pd as *const ProbeData<P> as *const ())));
                let eq = x == y;
                let ne = x != y;
                let ord = x.cmp(y);
                let mut h1 = crate::util::CallHasher::new();
                x.hash(&mut h1);
                let _ = format!("{:?}", x);
                tk::set_probe(None);
                probe_seen = Some((pd.seen_min.get(), pd.seen_max.get()));
                let mut h2 = crate::util::CallHasher::new();
                (**x).hash(&mut h2);
                let dbg = format!("{:?}", x);
                ensure!(
                    eq == (ti == tj) && ne == !eq,
                    "C14",
                    "cmp",
                    "Arc eq/ne = {}/{} for values {} and {}",
                    eq,
                    ne,
                    ti,
                    tj
                );
                let (pe, bpe) = (
                    Arc::ptr_eq(x, y),
                    ArcBorrow::ptr_eq(&x.borrow_arc(), &y.borrow_arc()),
                );
                ensure!(
                    pe == same && bpe == same,
                    "C14",
                    "cmp",
                    "Arc::ptr_eq / ArcBorrow::ptr_eq = {}/{} for handles to {} allocation",
                    pe,
                    bpe,
                    if same { "the same" } else { "different" }
                );
                ensure!(
                    ord == ti.cmp(&tj),
                    "C14",
                    "cmp",
                    "Arc cmp = {:?} for values {} and {}",
                    ord,
                    ti,
                    tj
                );
                ensure!(
                    h1.finish() == h2.finish(),
                    "C14",
                    "cmp",
                    "Arc hash differs from the value's hash"
                );
                ensure!(
                    dbg == format!("{:?}", **x),
                    "C14",
                    "cmp",
                    "Arc {{:?}} differs from the value's"
                );
                done = "arc";
            }
            (H::Off(x), H::Off(y)) => {
                let eq = x == y;
                let ne = x != y;
                ensure!(
                    eq == (ti == tj) && ne == !eq,
                    "C14",
                    "cmp",
                    "OffsetArc eq/ne = {}/{} for values {} and {}",
                    eq,
                    ne,
                    ti,
                    tj
                );
                ensure!(
                    format!("{:?}", x) == format!("{:?}", **x),
                    "C14",
                    "cmp",
                    "OffsetArc {{:?}} differs from the value's"
                );
                done = "off";
            }
            (H::U1(x), H::U1(y)) => {
                let eq = x == y;
                ensure!(
                    eq == (ti == tj),
                    "C14",
                    "cmp",
                    "ArcUnion eq = {} for first-variant values {} and {} (same allocation: {})",
                    eq,
                    ti,
                    tj,
                    same
                );
                done = "u1";
            }
            (H::UU(x, sx), H::UU(y, sy)) => {
                let eq = x == y;
                let want = sx == sy && ti == tj;
                ensure!(
                    eq == want,
                    "C14,C12",
                    "cmp",
                    "ArcUnion<P,P> eq = {} for variants {}/{} values {} and {}",
                    eq,
                    sx,
                    sy,
                    ti,
                    tj
                );
                done = "uu";
            }
            (H::Arc(x), _) => {
                let dbg = format!("{:?}", x.borrow_arc());
                ensure!(
                    dbg == format!("{:?}", **x),
                    "C14",
                    "cmp",
                    "ArcBorrow {{:?}} = {} differs from the value's",
                    dbg
                );
                done = "borrow-fmt";
            }
            _ => {}
        }
        self.st.counts.bump(&format!("op.compare:{}", done));
        if let Some((lo, hi)) = probe_seen {
            if hi != 0 {
                let a = self.slots[i].as_ref().unwrap().a;
                let owners = self.owners(a);
                self.st.counts.bump("count_obs.inside-eq-cmp-hash-fmt");
                if lo != owners || hi != owners {
                    soft_push(
                        &mut self.soft,
                        "C04",
                        "count",
                        format!("inside the payload's eq/cmp/hash/fmt callbacks the count read {}..{} with {} owning handles", lo, hi, owners),
                    );
                }
            }
        }
        self.verify("compare")
    }

    fn finish(&mut self) -> R {
        // release everything in random order
        loop {
            let used = self.used_slots();
            if used.is_empty() {
                break;
            }
            let i = *self.rng.pick(&used);
            let a = self.slots[i].as_ref().unwrap().a;
            let kind = self.slots[i].as_ref().unwrap().h.kind();
            self.op_drop(i, a, kind)?;
        }
        while let Some(v) = self.loose.pop() {
            let id = self.loose_ids.pop().unwrap();
            drop(v);
            if P::HAS_ID {
                ensure!(
                    tk::state(id) == tk::DEAD,
                    "C09",
                    "unwrap",
                    "harness: moved-out value not destroyed on drop"
                );
            }
        }
        self.verify("final-release")?;
        if P::HAS_ID {
            ensure!(
                tk::live() == 0,
                "C01",
                "live",
                "{} tracked values still alive at quiescence",
                tk::live()
            );
        }
        if shadow::active() {
            shadow::flush_quarantine();
            let f = shadow::take_findings();
            if let Some(x) = f.first() {
                return viol(
                    "C01",
                    "alloc",
                    format!("at quiescence: allocator monitor: {:?}", x),
                );
            }
            let lb = shadow::live_blocks();
            ensure!(
                lb.is_empty(),
                "C01",
                "live",
                "{} blocks never returned to the allocator: {:x?}",
                lb.len(),
                &lb[..lb.len().min(4)]
            );
        }
        Ok(())
    }
}

fn norm<P: Pay>(t: u64) -> u64 {
    if P::HAS_ID {
        t
    } else {
        0
    }
}

/// Run one history. Returns the trace on violation.
struct ProbeData<P: Pay> {
    arc: *const Arc<P>,
    seen_min: std::cell::Cell<usize>,
    seen_max: std::cell::Cell<usize>,
}
fn probe_count<P: Pay>(d: *const ()) {
    let d = unsafe { &*(d as *const ProbeData<P>) };
    let c = Arc::count(unsafe { &*d.arc });
    d.seen_min.set(d.seen_min.get().min(c));
    d.seen_max.set(d.seen_max.get().max(c));
}

/// Keep the first observational violation per property tag.
pub fn soft_push(soft: &mut Vec<Viol>, props: &'static str, oracle: &'static str, msg: String) {
    if !soft.iter().any(|v| v.props == props) {
        soft.push(Viol { props, oracle, msg });
    }
}

pub fn run_one<P: Pay + Send + Sync>(
    seed: u64,
    nops: usize,
    light: bool,
    st: &mut Stats,
) -> Result<(), (Vec<Viol>, Vec<String>)> {
    let id0 = tk::next_id();
    shadow::reset();
    let _ = tk::take_findings();
    let mut w: W<P> = W {
        slots: (0..NSLOTS).map(|_| None).collect(),
        allocs: Vec::new(),
        loose: Vec::new(),
        loose_ids: Vec::new(),
        rng: Rng::new(seed),
        trace: Vec::new(),
        st,
        next_tag: seed % 100,
        light,
        z0: tk::z_live(),
        last_a: usize::MAX,
        soft: Vec::new(),
    };
    let mut res = Ok(());
    for _ in 0..nops {
        if let Err(v) = w.step() {
            res = Err(v);
            break;
        }
    }
    if res.is_ok() {
        res = w.finish();
    }
    w.st.counts.bump("histories");
    w.st.counts.add("ops", w.trace.len() as u64);
    if w.st.sample.is_empty() || seed % 97 == 0 {
        w.st.sample = w.trace.iter().take(40).cloned().collect();
    }
    let mut viols = std::mem::take(&mut w.soft);
    let out = match res {
        Ok(()) if viols.is_empty() => Ok(()),
        Ok(()) => Err((viols, std::mem::take(&mut w.trace))),
        Err(v) => {
            // leak whatever is left rather than run destructors on possibly corrupt state
            let t = std::mem::take(&mut w.trace);
            for s in w.slots.drain(..) {
                std::mem::forget(s);
            }
            for v in w.loose.drain(..) {
                std::mem::forget(v);
            }
            viols.push(v);
            Err((viols, t))
        }
    };
    drop(w);
    tk::reset_range(id0);
    let _ = tk::take_findings();
    let _ = shadow::take_findings();
    out
}
